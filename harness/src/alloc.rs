//! Global allocator wrapper: counts heap operations performed while the current thread is inside
//! a (simulated or real) signal delivery and not inside harness code.

use std::alloc::{GlobalAlloc, Layout, System};
use std::cell::Cell;

thread_local! {
    static IN_DELIVERY: Cell<u32> = const { Cell::new(0) };
    static IN_HARNESS: Cell<u32> = const { Cell::new(0) };
    static HITS: Cell<u32> = const { Cell::new(0) };
}

const QUARANTINE: usize = 1024;
#[allow(clippy::declare_interior_mutable_const)]
const QZ: std::sync::atomic::AtomicUsize = std::sync::atomic::AtomicUsize::new(0);
static QPTR: [std::sync::atomic::AtomicUsize; QUARANTINE] = [QZ; QUARANTINE];
static QSIZE: [std::sync::atomic::AtomicUsize; QUARANTINE] = [QZ; QUARANTINE];
static QALIGN: [std::sync::atomic::AtomicUsize; QUARANTINE] = [QZ; QUARANTINE];
static QNEXT: std::sync::atomic::AtomicUsize = std::sync::atomic::AtomicUsize::new(0);
static QTICK: std::sync::atomic::AtomicUsize = std::sync::atomic::AtomicUsize::new(0);
static QLOCK: std::sync::atomic::AtomicBool = std::sync::atomic::AtomicBool::new(false);

pub struct CountingAlloc;

#[inline]
fn note() {
    let _ = IN_DELIVERY.try_with(|d| {
        if d.get() > 0 {
            let _ = IN_HARNESS.try_with(|h| {
                if h.get() == 0 {
                    let _ = HITS.try_with(|c| c.set(c.get() + 1));
                }
            });
        }
    });
}

unsafe impl GlobalAlloc for CountingAlloc {
    unsafe fn alloc(&self, l: Layout) -> *mut u8 {
        note();
        System.alloc(l)
    }
    unsafe fn dealloc(&self, p: *mut u8, l: Layout) {
        note();
        // poison what is given back: a reader that still holds a pointer into a freed block (a
        // channel replaced under a scanning consumer, a snapshot freed too early) then trips over
        // garbage instead of silently reading plausible stale data
        if l.size() <= 4096 && l.size() >= 16 {
            std::ptr::write_bytes(p, 0xFF, l.size());
            // ... and keep it out of circulation for a while (otherwise the very next allocation
            // of that size re-initialises the block and the stale reader sees a valid object)
            // (every other block only: immediate address reuse must stay possible too, or
            // pointer-comparison ABA mistakes could never show)
            if QTICK.fetch_add(1, std::sync::atomic::Ordering::Relaxed) % 2 == 0 && !QLOCK.swap(true, std::sync::atomic::Ordering::Acquire) {
                let i = QNEXT.load(std::sync::atomic::Ordering::Relaxed) % QUARANTINE;
                QNEXT.store(i + 1, std::sync::atomic::Ordering::Relaxed);
                let old = (QPTR[i].load(std::sync::atomic::Ordering::Relaxed), QSIZE[i].load(std::sync::atomic::Ordering::Relaxed), QALIGN[i].load(std::sync::atomic::Ordering::Relaxed));
                QPTR[i].store(p as usize, std::sync::atomic::Ordering::Relaxed);
                QSIZE[i].store(l.size(), std::sync::atomic::Ordering::Relaxed);
                QALIGN[i].store(l.align(), std::sync::atomic::Ordering::Relaxed);
                QLOCK.store(false, std::sync::atomic::Ordering::Release);
                if old.0 != 0 {
                    System.dealloc(old.0 as *mut u8, Layout::from_size_align_unchecked(old.1, old.2));
                }
                return;
            }
        }
        System.dealloc(p, l)
    }
    unsafe fn realloc(&self, p: *mut u8, l: Layout, n: usize) -> *mut u8 {
        note();
        System.realloc(p, l, n)
    }
    unsafe fn alloc_zeroed(&self, l: Layout) -> *mut u8 {
        note();
        System.alloc_zeroed(l)
    }
}

/// RAII: harness code section (allocations are not the library's).
pub struct Harness(u32);
impl Harness {
    #[inline]
    pub fn enter() -> Harness {
        let prev = IN_HARNESS.try_with(|h| {
            let p = h.get();
            h.set(p + 1);
            p
        });
        Harness(prev.unwrap_or(0))
    }
}
impl Drop for Harness {
    #[inline]
    fn drop(&mut self) {
        let _ = IN_HARNESS.try_with(|h| h.set(self.0));
    }
}

/// Run library code from inside harness code (e.g. a nested delivery injected from a hook).
pub fn as_library<R>(f: impl FnOnce() -> R) -> R {
    let prev = IN_HARNESS.try_with(|h| h.replace(0)).unwrap_or(0);
    let r = f();
    let _ = IN_HARNESS.try_with(|h| h.set(prev));
    r
}

/// Run `f` as a delivery; returns (result, heap operations by non-harness code during it).
pub fn in_delivery<R>(f: impl FnOnce() -> R) -> (R, u32) {
    let before = HITS.with(|c| c.get());
    IN_DELIVERY.with(|d| d.set(d.get() + 1));
    let r = as_library(f);
    IN_DELIVERY.with(|d| d.set(d.get() - 1));
    let after = HITS.with(|c| c.get());
    (r, after - before)
}
