//! Counting real `write(2)` / `send(2)` attempts on watched descriptors.
//!
//! The `sigverif` binary defines the C symbols `write` and `send` itself (main.rs); every call the
//! library under test makes through the `libc` crate therefore lands here first, is counted when
//! it targets a watched descriptor number, and is then forwarded as the raw system call. This is
//! what lets C13 decide "exactly one attempt to write one byte per delivery, returning promptly on
//! a full descriptor": bytes read back cannot tell one failed attempt from three, and a handler
//! that spins on EAGAIN never returns at all. Everything here is async-signal-safe (atomics, raw
//! syscalls, `_exit`).

use std::sync::atomic::{AtomicI32, AtomicI64, AtomicU64, Ordering::SeqCst};

pub const SLOTS: usize = 4;
#[allow(clippy::declare_interior_mutable_const)]
const NOFD: AtomicI32 = AtomicI32::new(-1);
#[allow(clippy::declare_interior_mutable_const)]
const ZERO: AtomicU64 = AtomicU64::new(0);
static WATCH: [AtomicI32; SLOTS] = [NOFD; SLOTS];
static ATTEMPTS: [AtomicU64; SLOTS] = [ZERO; SLOTS];
/// attempts whose length was not exactly one byte
static NOT_ONE: [AtomicU64; SLOTS] = [ZERO; SLOTS];
/// `send` attempts without MSG_DONTWAIT
static BLOCKING_SEND: [AtomicU64; SLOTS] = [ZERO; SLOTS];
/// when >= 0: the number of attempts on slot 0..SLOTS (summed) that the running burst may reach;
/// one more and the child reports `over-attempts` on `REPORT_FD` and exits at once
static LIMIT: AtomicI64 = AtomicI64::new(-1);
static REPORT_FD: AtomicI32 = AtomicI32::new(-1);
static CALLS: AtomicU64 = AtomicU64::new(0);

pub fn watch(slot: usize, fd: i32) {
    WATCH[slot].store(fd, SeqCst);
    ATTEMPTS[slot].store(0, SeqCst);
    NOT_ONE[slot].store(0, SeqCst);
    BLOCKING_SEND[slot].store(0, SeqCst);
}
pub fn unwatch_all() {
    for s in 0..SLOTS {
        WATCH[s].store(-1, SeqCst);
    }
    LIMIT.store(-1, SeqCst);
}
pub fn attempts(slot: usize) -> u64 {
    ATTEMPTS[slot].load(SeqCst)
}
pub fn not_one(slot: usize) -> u64 {
    NOT_ONE[slot].load(SeqCst)
}
pub fn blocking_sends(slot: usize) -> u64 {
    BLOCKING_SEND[slot].load(SeqCst)
}
pub fn total() -> u64 {
    (0..SLOTS).map(attempts).sum()
}
/// From now on at most `extra` further attempts on watched descriptors are tolerated.
pub fn set_limit(report_fd: i32, extra: u64) {
    REPORT_FD.store(report_fd, SeqCst);
    LIMIT.store((total() + extra) as i64, SeqCst);
}
pub fn clear_limit() {
    LIMIT.store(-1, SeqCst);
}

/// Called by the interposed symbols. `flags` is `None` for `write`.
#[inline]
pub fn spy(fd: i32, len: usize, flags: Option<i32>) {
    CALLS.fetch_add(1, SeqCst);
    if fd < 0 {
        return;
    }
    for s in 0..SLOTS {
        if WATCH[s].load(SeqCst) == fd {
            ATTEMPTS[s].fetch_add(1, SeqCst);
            if len != 1 {
                NOT_ONE[s].fetch_add(1, SeqCst);
            }
            if let Some(f) = flags {
                if f & libc::MSG_DONTWAIT == 0 {
                    BLOCKING_SEND[s].fetch_add(1, SeqCst);
                }
            }
            let lim = LIMIT.load(SeqCst);
            if lim >= 0 && total() as i64 > lim {
                let msg = b"{\"k\":\"over-attempts\"}\n";
                unsafe {
                    libc::syscall(libc::SYS_write, REPORT_FD.load(SeqCst), msg.as_ptr(), msg.len());
                    libc::_exit(0);
                }
            }
            return;
        }
    }
}

/// True if calls made through the `libc` crate really pass through `spy` in this executable.
pub fn active() -> bool {
    let before = CALLS.load(SeqCst);
    let b = 0u8;
    unsafe {
        libc::write(-1, &b as *const u8 as *const _, 1);
        libc::send(-1, &b as *const u8 as *const _, 1, libc::MSG_DONTWAIT);
    }
    CALLS.load(SeqCst) >= before + 2
}
