//! C17 — the reported signal origin equals the kernel's facts, and is absent when unknown.

use crate::driver::*;
use crate::forkrun::*;
use libc::{c_int, siginfo_t};
use proptest::prelude::*;
use serde::{Deserialize, Serialize};
use serde_json::{json, Value};
use signal_hook::iterator::exfiltrator::origin::{Origin, WithOrigin};
use signal_hook::iterator::SignalsInfo;
use signal_hook::low_level::siginfo::{Cause, Chld, Sent};
use std::sync::atomic::{AtomicI32, AtomicUsize, Ordering};

#[derive(Clone, Debug, Serialize, Deserialize)]
pub enum C17Case {
    /// synthetic siginfo image: signo, code, pid, uid, filler bytes
    Synth { signo: i32, code: i32, pid: i32, uid: u32, fill: Vec<u8> },
    /// real delivery: mechanism x signal index
    Real { mech: u8, sig: u8 },
    /// the origin exfiltrator inside an iterator instance under the schedule-owning executor
    /// (simulated deliveries with varied si_code; the record the kernel would not have filled in
    /// when the live handler lacks SA_SIGINFO is stale memory)
    Iter(crate::iter::IterCase),
    /// re-entrancy: `iters` extractions of a synthetic record on a thread that is bombarded with
    /// signals whose own action extracts the origin of its delivery as well
    Reentrant { signo: i32, code: i32, pid: i32, uid: u32, iters: u32 },
}

const SI_TIMER: i32 = -2;
const SI_MESGQ: i32 = -3;
const SI_ASYNCIO: i32 = -4;
const SI_SIGIO: i32 = -5;
const SI_TKILL: i32 = -6;
const SI_KERNEL: i32 = 0x80;

pub const REAL_SIGS: [c_int; 8] = [libc::SIGUSR1, libc::SIGUSR2, libc::SIGHUP, libc::SIGTERM, libc::SIGINT, libc::SIGWINCH, libc::SIGALRM, 40];
pub const MECHS: [&str; 12] = [
    "kill(self)", "raise", "pthread_kill", "sigqueue", "kill-from-child", "child-exited", "child-killed", "child-stopped", "child-continued",
    "alarm", "setitimer", "timer_create",
];

pub fn strategy() -> BoxedStrategy<C17Case> {
    let codes = vec![
        libc::SI_USER, SI_KERNEL, libc::SI_QUEUE, SI_TIMER, SI_MESGQ, SI_ASYNCIO, SI_SIGIO, SI_TKILL, 1, 2, 3, 4, 5, 6, 7, 8, -7, -8, 0x81, 0x7f, 127, 128, 129,
        -60, i32::MIN, i32::MAX,
    ];
    prop_oneof![
        1200 => (
            prop_oneof![3 => 1i32..65, 3 => Just(libc::SIGCHLD), 1 => any::<i32>()],
            prop_oneof![5 => proptest::sample::select(codes), 1 => any::<i32>(), 1 => -10i32..140],
            // boundary identities matter: pid 0 / uid 0 is what a receiver sees for a root sender
            // in an outer pid namespace
            prop_oneof![6 => any::<i32>(), 2 => Just(0i32), 1 => Just(1i32), 1 => Just(-1i32), 1 => Just(i32::MAX)],
            prop_oneof![6 => any::<u32>(), 2 => Just(0u32), 1 => Just(u32::MAX), 1 => Just(65534u32)],
            proptest::collection::vec(any::<u8>(), 0..100),
        )
            .prop_map(|(signo, code, pid, uid, fill)| C17Case::Synth { signo, code, pid, uid, fill }),
        200 => (0u8..12, 0u8..8).prop_map(|(mech, sig)| C17Case::Real { mech, sig }),
        60 => crate::iter::strategy(false).prop_map(|mut c| {
            c.exf = 2;
            c.plain_first = c.polls % 2 == 0;
            // half of them with a second consumer draining handed-over batches at the same time
            // (two batches of one instance on two threads): every reported origin must still be
            // the one of its own delivery
            if c.schedule.len() % 2 == 0 {
                c.handoff = true;
                c.consumer = if c.polls % 2 == 0 { 0 } else { 2 };
            }
            C17Case::Iter(c)
        }),
        // rare: each costs ~0.1 s
        1 => (
            prop_oneof![Just(libc::SIGUSR1), Just(libc::SIGCHLD), 1i32..65],
            proptest::sample::select(vec![libc::SI_USER, SI_KERNEL, libc::SI_QUEUE, SI_TKILL, SI_TIMER, 1, 2, 3]),
            1i32..100_000,
            1u32..100_000,
            60_000u32..160_000,
        )
            .prop_map(|(signo, code, pid, uid, iters)| C17Case::Reentrant { signo, code, pid, uid, iters }),
    ]
    .boxed()
}

/// Independent reference decoder: (cause label, has process).
pub fn reference(signo: i32, code: i32) -> (&'static str, bool) {
    match code {
        c if c == libc::SI_USER => ("Sent(User)", true),
        SI_KERNEL => ("Kernel", false),
        c if c == libc::SI_QUEUE => ("Sent(Queue)", true),
        SI_TKILL => ("Sent(TKill)", true),
        SI_MESGQ => ("Sent(MesgQ)", true),
        1..=6 if signo == libc::SIGCHLD => (["Chld(Exited)", "Chld(Killed)", "Chld(Dumped)", "Chld(Trapped)", "Chld(Stopped)", "Chld(Continued)"][(code - 1) as usize], true),
        _ => ("Unknown", false),
    }
}

pub fn cause_label(c: &Cause) -> String {
    match c {
        Cause::Unknown => "Unknown".into(),
        Cause::Kernel => "Kernel".into(),
        Cause::Sent(Sent::User) => "Sent(User)".into(),
        Cause::Sent(Sent::TKill) => "Sent(TKill)".into(),
        Cause::Sent(Sent::Queue) => "Sent(Queue)".into(),
        Cause::Sent(Sent::MesgQ) => "Sent(MesgQ)".into(),
        Cause::Chld(Chld::Exited) => "Chld(Exited)".into(),
        Cause::Chld(Chld::Killed) => "Chld(Killed)".into(),
        Cause::Chld(Chld::Dumped) => "Chld(Dumped)".into(),
        Cause::Chld(Chld::Trapped) => "Chld(Trapped)".into(),
        Cause::Chld(Chld::Stopped) => "Chld(Stopped)".into(),
        Cause::Chld(Chld::Continued) => "Chld(Continued)".into(),
        other => format!("{:?}", other),
    }
}

fn synth(signo: i32, code: i32, pid: i32, uid: u32, fill: &[u8]) -> CaseReport {
    let mut rep = CaseReport::default();
    let mut info: siginfo_t = unsafe { std::mem::zeroed() };
    unsafe {
        let bytes = std::slice::from_raw_parts_mut(&mut info as *mut siginfo_t as *mut u8, std::mem::size_of::<siginfo_t>());
        for (i, b) in fill.iter().enumerate() {
            // filler everywhere except the fields under test
            let at = 24 + i;
            if at < bytes.len() {
                bytes[at] = *b;
            }
        }
        let words = &mut info as *mut siginfo_t as *mut i32;
        *words.add(0) = signo;
        *words.add(2) = code;
        *words.add(4) = pid;
        *(words.add(5) as *mut u32) = uid;
    }
    let o = unsafe { Origin::extract(&info) };
    let (want_cause, want_proc) = reference(signo, code);
    let got_cause = cause_label(&o.cause);
    if o.signal != signo {
        rep.viol("C17/signal", format!("synthetic record signo={} code={}: reported signal {}", signo, code, o.signal));
    }
    if got_cause != want_cause {
        rep.viol("C17/cause", format!("synthetic record signo={} code={}: reported cause {}, reference {}", signo, code, got_cause, want_cause));
    }
    match (&o.process, want_proc) {
        (Some(p), true) => {
            if p.pid != pid || p.uid != uid {
                rep.viol("C17/process", format!("synthetic record signo={} code={} pid={} uid={}: reported process {:?}", signo, code, pid, uid, p));
            }
        }
        (None, false) => {}
        (Some(p), false) => rep.viol("C17/process", format!("synthetic record signo={} code={}: the kernel supplies no process for this cause, yet {:?} was reported", signo, code, p)),
        (None, true) => rep.viol("C17/process", format!("synthetic record signo={} code={}: process missing", signo, code)),
    }
    rep.nontrivial = want_cause != "Unknown";
    rep.class(if want_cause == "Unknown" { "synthetic-unknown-code" } else { "synthetic-distinguished-code" });
    rep.hash = hash_of(&(signo, code, pid, uid));
    rep.sample = Some(json!({"synthetic": {"signo": signo, "code": code, "pid": pid, "uid": uid}, "reported": format!("{:?}", o), "reference": [want_cause, want_proc]}));
    rep
}

// ---- real deliveries
static HAND_CODE: AtomicI32 = AtomicI32::new(i32::MIN);
static HAND_PID: AtomicI32 = AtomicI32::new(0);
static HAND_UID: AtomicUsize = AtomicUsize::new(0);
static HAND_SIGNO: AtomicI32 = AtomicI32::new(0);
static HAND_COUNT: AtomicUsize = AtomicUsize::new(0);

extern "C" {
    fn sigqueue(pid: libc::pid_t, sig: c_int, value: libc::sigval) -> c_int;
}

fn child_real(mech: u8, sig: c_int, fd: i32) {
    crate::vsched::install();
    let is_chld = (5..=8).contains(&mech);
    let sig = if is_chld { libc::SIGCHLD } else if mech == 9 || mech == 10 { libc::SIGALRM } else { sig };
    let mut sigs = match SignalsInfo::<WithOrigin>::new(&[sig]) {
        Ok(s) => s,
        Err(_) => {
            emit(fd, &json!({"k": "infra"}));
            return;
        }
    };
    // by hand, raw reader of the same record
    let _ = unsafe {
        signal_hook_registry::register_sigaction(sig, |info: &siginfo_t| {
            let words = info as *const siginfo_t as *const i32;
            HAND_SIGNO.store(*words.add(0), Ordering::SeqCst);
            HAND_CODE.store(*words.add(2), Ordering::SeqCst);
            HAND_PID.store(*words.add(4), Ordering::SeqCst);
            HAND_UID.store(*(words.add(5) as *const u32) as usize, Ordering::SeqCst);
            HAND_COUNT.fetch_add(1, Ordering::SeqCst);
        })
    };
    let me = unsafe { libc::getpid() };
    let uid = unsafe { libc::getuid() };
    let mut sender_pid = me;
    let mut expect_proc = true;
    let mut expect_cause = "";
    // with SIGCHLD mechanisms earlier children' notifications must not mix in: one child only
    match mech {
        0 => {
            unsafe { libc::kill(me, sig) };
            expect_cause = "Sent(User)";
        }
        1 => {
            unsafe { libc::raise(sig) };
            expect_cause = "Sent(TKill)";
        }
        2 => {
            unsafe { libc::pthread_kill(libc::pthread_self(), sig) };
            expect_cause = "Sent(TKill)";
        }
        3 => {
            unsafe { sigqueue(me, sig, libc::sigval { sival_ptr: 77 as *mut _ }) };
            expect_cause = "Sent(Queue)";
        }
        4 => {
            let c = unsafe { libc::fork() };
            if c == 0 {
                unsafe {
                    libc::kill(me, sig);
                    libc::_exit(0);
                }
            }
            sender_pid = c;
            let mut st = 0;
            unsafe { libc::waitpid(c, &mut st, 0) };
            expect_cause = "Sent(User)";
        }
        5 => {
            let c = unsafe { libc::fork() };
            if c == 0 {
                unsafe { libc::_exit(3) };
            }
            sender_pid = c;
            let mut st = 0;
            unsafe { libc::waitpid(c, &mut st, 0) };
            expect_cause = "Chld(Exited)";
        }
        6 => {
            let c = unsafe { libc::fork() };
            if c == 0 {
                unsafe {
                    libc::signal(libc::SIGTERM, libc::SIG_DFL);
                    libc::raise(libc::SIGTERM);
                    libc::_exit(0);
                }
            }
            sender_pid = c;
            let mut st = 0;
            unsafe { libc::waitpid(c, &mut st, 0) };
            expect_cause = "Chld(Killed)";
        }
        7 | 8 => {
            let c = unsafe { libc::fork() };
            if c == 0 {
                unsafe {
                    libc::raise(libc::SIGSTOP);
                    // stay alive after being continued, so that the only further notification
                    // is the one under test (the harness kills this child at the end)
                    loop {
                        libc::pause();
                    }
                }
            }
            sender_pid = c;
            let mut st = 0;
            unsafe { libc::waitpid(c, &mut st, libc::WUNTRACED) };
            if mech == 8 {
                // consume the "stopped" notification first, then continue the child
                wait_count(1);
                let first: Vec<Origin> = sigs.pending().collect();
                emit(fd, &json!({"k": "pre", "n": first.len()}));
                HAND_COUNT.store(0, Ordering::SeqCst);
                unsafe { libc::kill(c, libc::SIGCONT) };
                unsafe { libc::waitpid(c, &mut st, libc::WCONTINUED) };
                expect_cause = "Chld(Continued)";
                wait_count(1);
                let got: Vec<Origin> = sigs.pending().collect();
                report(fd, &got, expect_cause, expect_proc, sender_pid, uid, sig);
                unsafe {
                    libc::kill(c, libc::SIGKILL);
                    libc::waitpid(c, &mut st, 0);
                }
                return;
            }
            expect_cause = "Chld(Stopped)";
            wait_count(1);
            let got: Vec<Origin> = sigs.pending().collect();
            report(fd, &got, expect_cause, expect_proc, sender_pid, uid, sig);
            unsafe {
                libc::kill(c, libc::SIGKILL);
                libc::waitpid(c, &mut st, 0);
            }
            return;
        }
        9 => {
            unsafe { libc::alarm(1) };
            expect_cause = "Kernel";
            expect_proc = false;
            // alarm has one-second granularity; use ualarm-like itimer instead to stay fast
            let it = libc::itimerval { it_interval: libc::timeval { tv_sec: 0, tv_usec: 0 }, it_value: libc::timeval { tv_sec: 0, tv_usec: 2000 } };
            unsafe { libc::setitimer(libc::ITIMER_REAL, &it, std::ptr::null_mut()) };
        }
        10 => {
            let it = libc::itimerval { it_interval: libc::timeval { tv_sec: 0, tv_usec: 0 }, it_value: libc::timeval { tv_sec: 0, tv_usec: 1500 } };
            unsafe { libc::setitimer(libc::ITIMER_REAL, &it, std::ptr::null_mut()) };
            expect_cause = "Kernel";
            expect_proc = false;
        }
        _ => {
            unsafe {
                let mut sev: libc::sigevent = std::mem::zeroed();
                sev.sigev_notify = libc::SIGEV_SIGNAL;
                sev.sigev_signo = sig;
                let mut t: libc::timer_t = std::mem::zeroed();
                if libc::timer_create(libc::CLOCK_MONOTONIC, &mut sev, &mut t) != 0 {
                    emit(fd, &json!({"k": "infra"}));
                    return;
                }
                let its = libc::itimerspec {
                    it_interval: libc::timespec { tv_sec: 0, tv_nsec: 0 },
                    it_value: libc::timespec { tv_sec: 0, tv_nsec: 1_500_000 },
                };
                libc::timer_settime(t, 0, &its, std::ptr::null_mut());
            }
            expect_cause = "Unknown";
            expect_proc = false;
        }
    }
    wait_count(1);
    let got: Vec<Origin> = sigs.pending().collect();
    report(fd, &got, expect_cause, expect_proc, sender_pid, uid, sig);
}

fn wait_count(n: usize) {
    let start = std::time::Instant::now();
    while HAND_COUNT.load(Ordering::SeqCst) < n && start.elapsed().as_millis() < 3000 {
        std::thread::sleep(std::time::Duration::from_micros(200));
    }
}

fn report(fd: i32, got: &[Origin], cause: &str, has_proc: bool, pid: i32, uid: u32, sig: c_int) {
    let o = got.first();
    emit(
        fd,
        &json!({
            "k": "real",
            "n": got.len(),
            "signal": o.map(|o| o.signal),
            "cause": o.map(|o| cause_label(&o.cause)),
            "proc": o.and_then(|o| o.process.as_ref().map(|p| json!([p.pid, p.uid]))),
            "want_cause": cause, "want_proc": has_proc, "want_pid": pid, "want_uid": uid, "want_sig": sig,
            "hand": {"signo": HAND_SIGNO.load(Ordering::SeqCst), "code": HAND_CODE.load(Ordering::SeqCst), "pid": HAND_PID.load(Ordering::SeqCst), "uid": HAND_UID.load(Ordering::SeqCst)},
        }),
    );
    emit(fd, &json!({"k": "done"}));
}

fn real(mech: u8, sigi: u8) -> CaseReport {
    let sig = REAL_SIGS[sigi as usize % 8];
    let (recs, end) = fork_stream(15_000, move |fd| child_real(mech % 12, sig, fd));
    let mut rep = CaseReport::default();
    rep.hash = hash_of(&("real", mech % 12, sig));
    rep.class("real-delivery");
    rep.class(MECHS[mech as usize % 12]);
    rep.nontrivial = true;
    rep.sample = Some(json!({"mechanism": MECHS[mech as usize % 12], "signal": sig, "records": recs, "end": format!("{:?}", end)}));
    if end != End::Exited(0) || recs.iter().any(|r| r["k"] == "infra") || !recs.iter().any(|r| r["k"] == "done") {
        rep.inconclusive = Some(format!("real probe ended {:?} / {:?}", end, recs.last()));
        return rep;
    }
    let r = recs.iter().find(|r| r["k"] == "real").unwrap();
    let m = MECHS[mech as usize % 12];
    if r["n"].as_u64() != Some(1) {
        rep.viol("C17/count", format!("{}: one delivery produced {} origin records", m, r["n"]));
        return rep;
    }
    if r["signal"] != r["want_sig"] {
        rep.viol("C17/signal", format!("{}: reported signal {} for a delivery of {}", m, r["signal"], r["want_sig"]));
    }
    if r["cause"] != r["want_cause"] {
        rep.viol("C17/cause", format!("{}: reported cause {}, the mechanism implies {} (raw si_code {})", m, r["cause"], r["want_cause"], r["hand"]["code"]));
    }
    if r["want_proc"] == true {
        let p = &r["proc"];
        if p.is_null() {
            rep.viol("C17/process", format!("{}: no process reported although the kernel supplies it (raw pid {}, uid {})", m, r["hand"]["pid"], r["hand"]["uid"]));
        } else if p[0] != r["want_pid"] || p[1] != r["want_uid"] {
            rep.viol("C17/process", format!("{}: reported process {} but the sender/child is pid {} uid {}", m, p, r["want_pid"], r["want_uid"]));
        }
    } else if !r["proc"].is_null() {
        rep.viol("C17/process", format!("{}: the kernel supplies no process for this origin, yet {} was reported", m, r["proc"]));
    }
    // cross-check with the raw reader: same decoding as the reference on the real record
    let (c2, _) = reference(r["hand"]["signo"].as_i64().unwrap_or(0) as i32, r["hand"]["code"].as_i64().unwrap_or(0) as i32);
    if r["cause"] != c2 {
        rep.viol("C17/cause", format!("{}: reported cause {} but the raw record decodes to {}", m, r["cause"], c2));
    }
    rep
}

static RE_BAD_INNER: AtomicUsize = AtomicUsize::new(0);
static RE_INNER: AtomicUsize = AtomicUsize::new(0);

fn child_reentrant(signo: i32, code: i32, pid: i32, uid: u32, iters: u32, fd: i32) {
    crate::vsched::install();
    let me = unsafe { libc::getpid() };
    let _ = unsafe {
        signal_hook_registry::register_sigaction(libc::SIGUSR2, move |info: &siginfo_t| {
            let o = Origin::extract(info);
            RE_INNER.fetch_add(1, Ordering::SeqCst);
            let ok = o.signal == libc::SIGUSR2 && o.process.as_ref().map_or(false, |p| p.pid == me) && matches!(o.cause, Cause::Sent(_));
            if !ok {
                RE_BAD_INNER.fetch_add(1, Ordering::SeqCst);
            }
        })
    };
    let mut info: siginfo_t = unsafe { std::mem::zeroed() };
    unsafe {
        let words = &mut info as *mut siginfo_t as *mut i32;
        *words.add(0) = signo;
        *words.add(2) = code;
        *words.add(4) = pid;
        *(words.add(5) as *mut u32) = uid;
    }
    let (want_cause, want_proc) = reference(signo, code);
    let main_thread = unsafe { libc::pthread_self() } as usize;
    let stop = std::sync::Arc::new(std::sync::atomic::AtomicBool::new(false));
    let stop2 = stop.clone();
    let kicker = std::thread::spawn(move || {
        unsafe {
            let mut all: libc::sigset_t = std::mem::zeroed();
            libc::sigfillset(&mut all);
            libc::pthread_sigmask(libc::SIG_BLOCK, &all, std::ptr::null_mut());
        }
        while !stop2.load(Ordering::SeqCst) {
            unsafe { libc::pthread_kill(main_thread as libc::pthread_t, libc::SIGUSR2) };
            std::hint::spin_loop();
        }
    });
    let mut bad = 0u32;
    let mut first_bad = String::new();
    for _ in 0..iters {
        let o = unsafe { Origin::extract(&info) };
        let ok = o.signal == signo
            && cause_label(&o.cause) == want_cause
            && match (&o.process, want_proc) {
                (Some(p), true) => p.pid == pid && p.uid == uid,
                (None, false) => true,
                _ => false,
            };
        if !ok {
            bad += 1;
            if first_bad.is_empty() {
                first_bad = format!("{:?}", o);
            }
        }
    }
    stop.store(true, Ordering::SeqCst);
    let _ = kicker.join();
    emit(fd, &json!({"k": "reentrant", "bad": bad, "first_bad": first_bad, "inner": RE_INNER.load(Ordering::SeqCst), "bad_inner": RE_BAD_INNER.load(Ordering::SeqCst)}));
    emit(fd, &json!({"k": "done"}));
}

fn reentrant(signo: i32, code: i32, pid: i32, uid: u32, iters: u32) -> CaseReport {
    let (recs, end) = fork_stream(30_000, move |fd| child_reentrant(signo, code, pid, uid, iters, fd));
    let mut rep = CaseReport::default();
    rep.hash = hash_of(&("reentrant", signo, code, pid, uid, iters));
    rep.class("reentrancy-stress");
    rep.sample = Some(json!({"reentrant": {"signo": signo, "code": code, "pid": pid, "uid": uid, "iters": iters}, "records": recs, "end": format!("{:?}", end)}));
    if end != End::Exited(0) || !recs.iter().any(|r| r["k"] == "done") {
        rep.inconclusive = Some(format!("reentrancy probe ended {:?}", end));
        return rep;
    }
    let r = recs.iter().find(|r| r["k"] == "reentrant").unwrap();
    rep.nontrivial = r["inner"].as_u64().unwrap_or(0) > 100;
    if r["bad"].as_u64().unwrap_or(0) > 0 {
        rep.viol("C17/reentrancy", format!("{} of {} extractions of one record (signal {}, code {}, pid {}) returned something else while {} signals whose action also extracts interrupted the thread; first: {}", r["bad"], iters, signo, code, pid, r["inner"], r["first_bad"]));
    }
    if r["bad_inner"].as_u64().unwrap_or(0) > 0 {
        rep.viol("C17/reentrancy", format!("{} in-handler extractions of SIGUSR2 deliveries were wrong", r["bad_inner"]));
    }
    rep
}

pub fn run_case(case: &C17Case) -> CaseReport {
    match case {
        C17Case::Iter(c) => {
            let mut r = crate::iter::run_case(c);
            r.classes.push("origin-exfiltrator-in-iterator".into());
            r.nontrivial = true;
            r
        }
        C17Case::Reentrant { signo, code, pid, uid, iters } => reentrant(*signo, *code, *pid, *uid, *iters),
        C17Case::Synth { signo, code, pid, uid, fill } => synth(*signo, *code, *pid, *uid, fill),
        C17Case::Real { mech, sig } => real(*mech, *sig),
    }
}

fn worker(def: &PropDef, args: &WorkerArgs) -> WorkerReport {
    generic_worker(def, args, strategy(), &run_case)
}

/// every mechanism x every probe signal, plus every distinguished code x {SIGCHLD, other}
fn extra(def: &PropDef, _args: &WorkerArgs, report: &mut WorkerReport) {
    let known = Known::load();
    let mut cases: Vec<C17Case> = Vec::new();
    for mech in 0..12u8 {
        for sig in 0..8u8 {
            if (5..=10).contains(&mech) && sig > 0 {
                continue; // the signal is implied by the mechanism
            }
            cases.push(C17Case::Real { mech, sig });
        }
    }
    for code in [libc::SI_USER, SI_KERNEL, libc::SI_QUEUE, SI_TIMER, SI_MESGQ, SI_ASYNCIO, SI_SIGIO, SI_TKILL, 1, 2, 3, 4, 5, 6, 7, -7] {
        for signo in [libc::SIGCHLD, libc::SIGUSR1, 64] {
            cases.push(C17Case::Synth { signo, code, pid: 4242, uid: 1717, fill: vec![0xAB; 100] });
            for (pid, uid) in [(0, 0u32), (0, 1000), (1, 0), (-1, u32::MAX)] {
                cases.push(C17Case::Synth { signo, code, pid, uid, fill: vec![0; 100] });
            }
        }
    }
    cases.push(C17Case::Reentrant { signo: libc::SIGUSR1, code: libc::SI_QUEUE, pid: 4242, uid: 77, iters: 250_000 });
    cases.push(C17Case::Reentrant { signo: libc::SIGCHLD, code: 1, pid: 31337, uid: 1000, iters: 250_000 });
    {
        let rep = null_info_probe();
        if let Some(v) = report.absorb(def, &rep, &known) {
            report.violation = Some((v.key, v.msg, json!({"null_info_probe": true})));
            return;
        }
    }
    for case in cases {
        let rep = run_case(&case);
        if let Some(v) = report.absorb(def, &rep, &known) {
            report.violation = Some((v.key, v.msg, serde_json::to_value(&case).unwrap()));
            return;
        }
    }
}

fn replay(v: &Value) -> CaseReport {
    if v.get("null_info_probe").is_some() {
        return null_info_probe();
    }
    let case: C17Case = serde_json::from_value(v.clone()).expect("case");
    run_case(&case)
}

pub static C17: PropDef = PropDef {
    id: "C17",
    prefixes: &["C17/"],
    rule: "three generated domains: (0) iterator scenarios with the origin exfiltrator under the schedule-owning executor (simulated deliveries with SI_USER / SI_QUEUE / small positive codes on non-SIGCHLD signals, optionally after plain actions took the signals over first; the kernel model leaves the record unfilled while the live handler lacks SA_SIGINFO) judged by the same reference decoder; (1) synthetic 128-byte siginfo images (signal 1..64/any, si_code from every code the extractor distinguishes + neighbours + random, random and boundary pid/uid (0, 1, -1, MAX; pid 0 with uid 0 = a root sender outside the receiver's pid namespace), random filler) decoded in-process by Origin::extract and compared with an independent reference decoder; (2) real deliveries in a forked child: mechanism {kill(self), raise, pthread_kill, sigqueue, kill from a child, child exited/killed/stopped/continued, alarm, setitimer, timer_create} x signal, read through SignalsInfo<WithOrigin> and by a raw reader in a register_sigaction action; worker 0 enumerates all mechanisms and all distinguished codes. Oracle: signal number, cause class per mechanism, pid/uid == getpid/getuid or the child's, no process for kernel/timer origins or unknown codes. Non-trivial = distinguished code or real delivery; distinct = (signo, code, pid, uid) / (mechanism, signal)",
    assumptions: &["Linux si_code constants and the x86-64/aarch64 siginfo layout (si_pid at offset 16, si_uid at 20) are written independently in the harness"],
    cases: (4000, 200_000),
    shrink_iters: 500,
    worker,
    replay,
    extra: Some(extra),
};

// ---- a delivery that reaches the library without any record from the kernel: a third-party
// handler installed over the library's chains to it the lazy way, `old(sig, NULL, NULL)`. The
// library may refuse to go on (it aborts today) or report nothing - it must not invent an origin.
static NULL_CHAIN_OLD: AtomicUsize = AtomicUsize::new(0);
extern "C" fn chain_with_null(sig: c_int) {
    let f: extern "C" fn(c_int, *mut siginfo_t, *mut libc::c_void) = unsafe { std::mem::transmute(NULL_CHAIN_OLD.load(Ordering::SeqCst)) };
    f(sig, std::ptr::null_mut(), std::ptr::null_mut());
}

fn null_info_probe() -> CaseReport {
    let (recs, end) = fork_stream(10_000, |fd| {
        crate::vsched::install();
        let sig = libc::SIGUSR1;
        let mut sigs = match SignalsInfo::<WithOrigin>::new(&[sig]) {
            Ok(s) => s,
            Err(_) => {
                emit(fd, &json!({"k": "infra"}));
                return;
            }
        };
        unsafe {
            let mut old: libc::sigaction = std::mem::zeroed();
            libc::sigaction(sig, std::ptr::null(), &mut old);
            NULL_CHAIN_OLD.store(old.sa_sigaction, Ordering::SeqCst);
            let mut sa: libc::sigaction = std::mem::zeroed();
            sa.sa_sigaction = chain_with_null as usize;
            libc::sigaction(sig, &sa, std::ptr::null_mut());
        }
        emit(fd, &json!({"k": "raising"}));
        unsafe {
            // the library announces its refusal on stderr before it aborts: keep the check's output clean
            let null = libc::open(b"/dev/null\0".as_ptr() as *const libc::c_char, libc::O_WRONLY);
            if null >= 0 {
                libc::dup2(null, 2);
            }
            libc::raise(sig)
        };
        for o in sigs.pending() {
            emit(fd, &json!({"k": "origin", "signal": o.signal, "cause": cause_label(&o.cause), "process": o.process.as_ref().map(|p| json!([p.pid, p.uid]))}));
        }
        emit(fd, &json!({"k": "done"}));
    });
    let mut rep = CaseReport::default();
    rep.hash = hash_of(&"null-info");
    rep.class("delivery-without-kernel-record");
    rep.nontrivial = true;
    rep.sample = Some(json!({"null_info_probe": true, "records": recs, "end": format!("{:?}", end)}));
    if !recs.iter().any(|r| r["k"] == "raising") {
        rep.inconclusive = Some(format!("null-info probe ended {:?}", end));
        return rep;
    }
    for r in recs.iter().filter(|r| r["k"] == "origin") {
        if !r["process"].is_null() || r["cause"] != "Unknown" {
            rep.viol("C17/process", format!("a delivery that reached the library without any kernel record (info pointer NULL) was reported with an invented origin: cause {}, process {}", r["cause"], r["process"]));
        }
    }
    rep
}
