//! sigverif: property-based / schedule-owning verification harness for vorner/signal-hook.
#![allow(dead_code)]
#[cfg(feature = "adapters")]
pub mod adapters;
#[cfg(not(feature = "adapters"))]
#[path = "adapters_stub.rs"]
pub mod adapters;
pub mod alloc;
pub mod c03;
pub mod c05;
pub mod c12;
pub mod c13;
pub mod c14;
pub mod c15;
pub mod c16;
pub mod c17;
pub mod chan;
pub mod driver;
pub mod forkrun;
pub mod iter;
pub mod probe;
pub mod reg;
pub mod sysspy;
pub mod vsched;

use driver::PropDef;

/// Every property's definition.
pub fn props() -> Vec<&'static PropDef> {
    vec![&chan::C06, &chan::C07, &chan::C08, &reg::C01, &reg::C02, &c03::C03, &reg::C04, &reg::C18, &c14::C14, &c12::C12, &c16::C16, &c15::C15, &c13::C13, &c05::C05, &c17::C17, &iter::C09, &iter::C10, &iter::C11]
}
