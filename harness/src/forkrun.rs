//! One case per forked child: the child runs a closure producing a JSON value, the parent reads it
//! back and observes how the child ended.

use serde_json::Value;
use std::io::Read;
use std::os::unix::io::FromRawFd;

#[derive(Debug)]
pub enum ChildEnd {
    /// child wrote a report and exited 0
    Report(Value),
    /// child exited with a status without (or with an unparsable) report
    Exited { code: i32, partial: String },
    /// child was killed by a signal
    Signaled { sig: i32, partial: String },
    /// watchdog
    Timeout { partial: String },
    /// fork/pipe failure
    Infra(String),
}

/// Reset every disposition to SIG_DFL, empty the signal mask.
pub fn normalise_signals() {
    unsafe {
        for s in 1..65 {
            if s == libc::SIGKILL || s == libc::SIGSTOP || s == 32 || s == 33 {
                continue;
            }
            let mut sa: libc::sigaction = std::mem::zeroed();
            sa.sa_sigaction = libc::SIG_DFL;
            libc::sigaction(s, &sa, std::ptr::null_mut());
        }
        let mut set: libc::sigset_t = std::mem::zeroed();
        libc::sigemptyset(&mut set);
        libc::sigprocmask(libc::SIG_SETMASK, &set, std::ptr::null_mut());
        let lim = libc::rlimit { rlim_cur: 0, rlim_max: 0 };
        libc::setrlimit(libc::RLIMIT_CORE, &lim);
    }
}

pub fn write_all_fd(fd: i32, mut data: &[u8]) {
    while !data.is_empty() {
        let n = unsafe { libc::write(fd, data.as_ptr() as *const _, data.len()) };
        if n <= 0 {
            let e = std::io::Error::last_os_error();
            if e.kind() == std::io::ErrorKind::Interrupted {
                continue;
            }
            break;
        }
        data = &data[n as usize..];
    }
}

/// Fork; in the child run `f(report_fd)`: it may stream partial data and must finally write one
/// JSON document, then the child `_exit(0)`s. `timeout_ms` bounds the whole child.
pub fn fork_case(timeout_ms: i32, f: impl FnOnce() -> Value) -> ChildEnd {
    let mut fds = [0i32; 2];
    if unsafe { libc::pipe(fds.as_mut_ptr()) } != 0 {
        return ChildEnd::Infra("pipe".into());
    }
    let pid = unsafe { libc::fork() };
    if pid < 0 {
        unsafe {
            libc::close(fds[0]);
            libc::close(fds[1]);
        }
        return ChildEnd::Infra(format!("fork: {}", std::io::Error::last_os_error()));
    }
    if pid == 0 {
        unsafe { libc::close(fds[0]) };
        normalise_signals();
        let v = f();
        let s = serde_json::to_vec(&v).unwrap_or_default();
        write_all_fd(fds[1], &s);
        flush_coverage();
        unsafe { libc::_exit(0) };
    }
    unsafe { libc::close(fds[1]) };
    let mut buf: Vec<u8> = Vec::new();
    let start = std::time::Instant::now();
    let mut timed_out = false;
    loop {
        let left = timeout_ms as i64 - start.elapsed().as_millis() as i64;
        if left <= 0 {
            timed_out = true;
            break;
        }
        let mut p = libc::pollfd { fd: fds[0], events: libc::POLLIN, revents: 0 };
        let r = unsafe { libc::poll(&mut p, 1, left as i32) };
        if r < 0 {
            if std::io::Error::last_os_error().kind() == std::io::ErrorKind::Interrupted {
                continue;
            }
            break;
        }
        if r == 0 {
            timed_out = true;
            break;
        }
        let mut tmp = [0u8; 65536];
        let n = unsafe { libc::read(fds[0], tmp.as_mut_ptr() as *mut _, tmp.len()) };
        if n < 0 {
            if std::io::Error::last_os_error().kind() == std::io::ErrorKind::Interrupted {
                continue;
            }
            break;
        }
        if n == 0 {
            break;
        }
        buf.extend_from_slice(&tmp[..n as usize]);
    }
    unsafe { libc::close(fds[0]) };
    if timed_out {
        unsafe {
            libc::kill(pid, libc::SIGKILL);
            let mut st = 0;
            libc::waitpid(pid, &mut st, 0);
        }
        return ChildEnd::Timeout { partial: String::from_utf8_lossy(&buf).into_owned() };
    }
    let mut st = 0;
    loop {
        let r = unsafe { libc::waitpid(pid, &mut st, 0) };
        if r == pid {
            break;
        }
        if r < 0 && std::io::Error::last_os_error().kind() != std::io::ErrorKind::Interrupted {
            return ChildEnd::Infra("waitpid".into());
        }
    }
    let partial = String::from_utf8_lossy(&buf).into_owned();
    if libc::WIFSIGNALED(st) {
        return ChildEnd::Signaled { sig: libc::WTERMSIG(st), partial };
    }
    let code = libc::WEXITSTATUS(st);
    if code == 0 {
        if let Ok(v) = serde_json::from_slice::<Value>(&buf) {
            return ChildEnd::Report(v);
        }
    }
    ChildEnd::Exited { code, partial }
}

#[allow(dead_code)]
pub fn read_fd_to_string(fd: i32) -> String {
    let mut f = unsafe { std::fs::File::from_raw_fd(fd) };
    let mut s = String::new();
    let _ = f.read_to_string(&mut s);
    s
}

/// How a streaming child ended.
#[derive(Debug, Clone, PartialEq)]
pub enum End {
    Exited(i32),
    Signaled(i32),
    Timeout,
    Infra(String),
}

/// Fork; the child runs `f(fd)` writing newline-separated JSON records to `fd` as it goes (so
/// they survive `_exit`, abort or death by signal). Returns every complete record and how the
/// child ended. If `f` returns, the child `_exit(0)`s.
pub fn fork_stream(timeout_ms: i32, f: impl FnOnce(i32)) -> (Vec<Value>, End) {
    let mut fds = [0i32; 2];
    if unsafe { libc::pipe(fds.as_mut_ptr()) } != 0 {
        return (vec![], End::Infra("pipe".into()));
    }
    let pid = unsafe { libc::fork() };
    if pid < 0 {
        unsafe {
            libc::close(fds[0]);
            libc::close(fds[1]);
        }
        return (vec![], End::Infra(format!("fork: {}", std::io::Error::last_os_error())));
    }
    if pid == 0 {
        unsafe { libc::close(fds[0]) };
        normalise_signals();
        f(fds[1]);
        flush_coverage();
        unsafe { libc::_exit(0) };
    }
    unsafe { libc::close(fds[1]) };
    let mut buf: Vec<u8> = Vec::new();
    let start = std::time::Instant::now();
    let mut timed_out = false;
    loop {
        let left = timeout_ms as i64 - start.elapsed().as_millis() as i64;
        if left <= 0 {
            timed_out = true;
            break;
        }
        let mut p = libc::pollfd { fd: fds[0], events: libc::POLLIN, revents: 0 };
        let r = unsafe { libc::poll(&mut p, 1, left as i32) };
        if r < 0 {
            if std::io::Error::last_os_error().kind() == std::io::ErrorKind::Interrupted {
                continue;
            }
            break;
        }
        if r == 0 {
            timed_out = true;
            break;
        }
        let mut tmp = [0u8; 65536];
        let n = unsafe { libc::read(fds[0], tmp.as_mut_ptr() as *mut _, tmp.len()) };
        if n < 0 {
            if std::io::Error::last_os_error().kind() == std::io::ErrorKind::Interrupted {
                continue;
            }
            break;
        }
        if n == 0 {
            break;
        }
        buf.extend_from_slice(&tmp[..n as usize]);
    }
    unsafe { libc::close(fds[0]) };
    let end;
    if timed_out {
        let sys = std::fs::read_to_string(format!("/proc/{}/syscall", pid)).unwrap_or_default();
        LAST_TIMEOUT_SYSCALL.with(|c| *c.borrow_mut() = sys);
        unsafe {
            libc::kill(pid, libc::SIGKILL);
            let mut st = 0;
            libc::waitpid(pid, &mut st, 0);
        }
        end = End::Timeout;
    } else {
        let mut st = 0;
        loop {
            let r = unsafe { libc::waitpid(pid, &mut st, 0) };
            if r == pid {
                break;
            }
            if r < 0 && std::io::Error::last_os_error().kind() != std::io::ErrorKind::Interrupted {
                return (vec![], End::Infra("waitpid".into()));
            }
        }
        end = if libc::WIFSIGNALED(st) { End::Signaled(libc::WTERMSIG(st)) } else { End::Exited(libc::WEXITSTATUS(st)) };
    }
    let text = String::from_utf8_lossy(&buf);
    let recs = text.lines().filter_map(|l| serde_json::from_str::<Value>(l).ok()).collect();
    (recs, end)
}

/// Child side: emit one record.
pub fn emit(fd: i32, v: &Value) {
    let mut s = serde_json::to_vec(v).unwrap_or_default();
    s.push(b'\n');
    write_all_fd(fd, &s);
}

/// Snapshot of all dispositions (handler address, flags) for signals 1..=64.
pub fn dispositions() -> Vec<(usize, i32)> {
    let mut v = Vec::with_capacity(64);
    for s in 1..65 {
        let mut cur: libc::sigaction = unsafe { std::mem::zeroed() };
        let r = unsafe { libc::sigaction(s, std::ptr::null(), &mut cur) };
        if r != 0 {
            v.push((usize::MAX, -1));
        } else {
            v.push((cur.sa_sigaction, cur.sa_flags));
        }
    }
    v
}

pub fn fd_valid(fd: i32) -> bool {
    unsafe { libc::fcntl(fd, libc::F_GETFD) != -1 }
}

pub fn open_fd_count() -> usize {
    std::fs::read_dir("/proc/self/fd").map(|d| d.count()).unwrap_or(0)
}

/// Children that exercise self-pipes ignore SIGPIPE, as the Rust runtime arranges for every Rust
/// binary: none of the listed properties claims anything about writes to a reader-less pipe.
pub fn ignore_sigpipe() {
    unsafe {
        let mut sa: libc::sigaction = std::mem::zeroed();
        sa.sa_sigaction = libc::SIG_IGN;
        libc::sigaction(libc::SIGPIPE, &sa, std::ptr::null_mut());
    }
}

thread_local! {
    static LAST_TIMEOUT_SYSCALL: std::cell::RefCell<String> = const { std::cell::RefCell::new(String::new()) };
}

/// `/proc/<pid>/syscall` of the last child that hit the watchdog in `fork_stream`.
pub fn last_timeout_syscall() -> String {
    LAST_TIMEOUT_SYSCALL.with(|c| c.borrow().clone())
}

/// Exit status of a child whose SIGSEGV handler found the instruction pointer at 0 or 1: the
/// program *called* `SIG_DFL` / `SIG_IGN` as if it were a function.
pub const EXIT_CALLED_DFL_IGN: i32 = 97;

extern "C" fn segv_probe(_sig: libc::c_int, _info: *mut libc::siginfo_t, ctx: *mut libc::c_void) {
    #[cfg(target_arch = "x86_64")]
    unsafe {
        let uc = ctx as *mut libc::ucontext_t;
        let rip = (*uc).uc_mcontext.gregs[libc::REG_RIP as usize] as u64;
        if rip <= 1 {
            libc::_exit(EXIT_CALLED_DFL_IGN);
        }
    }
    let _ = ctx;
    // anything else: die of the fault as usual (returning re-executes the faulting instruction)
    unsafe {
        let mut sa: libc::sigaction = std::mem::zeroed();
        sa.sa_sigaction = libc::SIG_DFL;
        libc::sigaction(libc::SIGSEGV, &sa, std::ptr::null_mut());
    }
}

/// Child side: make "SIG_DFL / SIG_IGN was called as a function" a distinguishable ending.
pub fn install_segv_probe() {
    unsafe {
        let mut sa: libc::sigaction = std::mem::zeroed();
        sa.sa_sigaction = segv_probe as usize;
        sa.sa_flags = libc::SA_SIGINFO | libc::SA_NODEFER;
        libc::sigaction(libc::SIGSEGV, &sa, std::ptr::null_mut());
    }
}

/// Coverage builds only (tools/coverage.sh, `--cfg sigverif_cov`): children leave through `_exit`,
/// which skips the profile runtime's atexit hook.
pub fn flush_coverage() {
    #[cfg(sigverif_cov)]
    unsafe {
        extern "C" {
            fn __llvm_profile_write_file() -> libc::c_int;
        }
        __llvm_profile_write_file();
    }
}
