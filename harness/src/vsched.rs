//! vsched — schedule-driven executor.
//!
//! Virtual threads are OS threads; a token lets exactly one of them run. Every shim operation of
//! the code under test is a scheduling point: the executor consults the byte-encoded schedule,
//! hands the token over if another thread is chosen, optionally injects a nested "delivery" on
//! the current stack, then performs the operation under a (subset of the) C11 memory model with
//! vector clocks. See DESIGN.md §3.1.

use signal_hook_registry::verif_shim::{self as shim, Event, Hooks, Kind, OpDesc, Real};
use std::cell::RefCell;
use std::collections::HashMap;
use std::sync::atomic::Ordering;
use std::sync::{Arc, Condvar, Mutex, MutexGuard};

pub const MAX_THREADS: usize = 8;
pub type Vc = [u32; MAX_THREADS];

fn vc_join(a: &mut Vc, b: &Vc) {
    for i in 0..MAX_THREADS {
        if b[i] > a[i] {
            a[i] = b[i];
        }
    }
}
/// a ≤ b component-wise
pub fn vc_le(a: &Vc, b: &Vc) -> bool {
    (0..MAX_THREADS).all(|i| a[i] <= b[i])
}

#[derive(Clone, Debug)]
pub struct Nested {
    pub thread: usize,
    /// inject when the thread arrives at its `at`-th point (of class `on`)
    pub at: u32,
    pub id: u32,
    /// 0 = any point, 1 = raw cell access, 2 = self-pipe drain, 3 = blocking-read entry,
    /// 4 = self-pipe wake
    pub on: u8,
}

#[derive(Clone, Debug)]
pub struct Config {
    pub schedule: Vec<u8>,
    pub step_bound: u64,
    pub nested: Vec<Nested>,
    /// allow stale reads / spurious weak-CAS failures
    pub weak: bool,
    /// record atomic ops in the log (needed by step-counting oracles)
    pub log_ops: bool,
    /// how virtual threads leave an aborted case: unwind (in-process cases; nothing is leaked)
    /// or park forever (fork-per-case: the child `_exit`s; required when `extern "C"` frames
    /// such as the signal dispatcher may be on the stack)
    pub abort_unwind: bool,
    /// directed schedule prefix: run `thread` exclusively until it has arrived at `n` points of
    /// the given class (0 = until done, 1 = Body, 2 = Spin/Yield, 3 = any point); consumed
    /// before the byte schedule
    pub script: Vec<(usize, u8, u32)>,
    /// stop the case at the first detected cell race / cell protocol violation (needed when the
    /// racing memory could really be freed; the channel harness serialises physically and can go
    /// on, so that the consequences reach the other oracles)
    pub abort_on_cell_race: bool,
    /// run-length factor of the byte schedule: a zero byte ("keep running") stands for this many
    /// consecutive choices, a non-zero byte for one. Lets a short, shrinkable schedule place its
    /// preemptions anywhere in a run of thousands of points (0 and 1 mean no stretching).
    pub stretch: u8,
    /// hold directive `(thread, k, steps)`: right after the thread's k-th load that returned a
    /// pointer-like value (>= 2^32) it is not scheduled for the next `steps` steps while any other
    /// thread can run. Places a long pause exactly between "pointer obtained" and "pointer used" -
    /// the window every publish/reclaim scheme has to get right.
    pub hold: Option<(usize, u32, u32)>,
}

impl Default for Config {
    fn default() -> Self {
        Config {
            schedule: vec![],
            step_bound: 60_000,
            nested: vec![],
            weak: true,
            log_ops: true,
            abort_unwind: false,
            script: vec![],
            abort_on_cell_race: true,
            stretch: 1,
            hold: None,
        }
    }
}

#[derive(Clone, Debug)]
pub enum Item {
    Op {
        kind: Kind,
        addr: usize,
        old: u64,
        new: u64,
        ok: bool,
        ord: Ordering,
        stale: u32,
        spurious: bool,
    },
    Lock { addr: usize },
    TryLock { addr: usize, ok: bool },
    Unlock { addr: usize },
    Point { kind: Kind, a: usize },
    Event { ev: Event, a: usize, b: usize },
    Call { id: u32, name: &'static str, a: i64, b: i64 },
    Ret { id: u32, r: i64 },
    Mark { name: &'static str, a: i64, b: i64 },
    Panic { msg: String },
    ThreadDone,
    NestedStart { id: u32 },
    NestedEnd { id: u32 },
    SoloStart,
    SoloEnd { blocked: bool, waited: u32 },
    Blocked { what: &'static str, a: usize },
}

#[derive(Clone, Debug)]
pub struct Rec {
    pub step: u64,
    pub tid: i32,
    pub depth: u32,
    pub vc: Vc,
    pub item: Item,
}

#[derive(Clone, Debug)]
pub struct Violation {
    pub key: String,
    pub msg: String,
    pub step: u64,
}

#[derive(Clone, Debug, PartialEq)]
pub enum Outcome {
    Completed,
    Deadlock(Vec<(usize, String)>),
    StepBound,
    Aborted,
}

#[derive(Clone, Debug)]
pub struct RunResult {
    pub outcome: Outcome,
    pub log: Vec<Rec>,
    pub steps: u64,
    pub switches: u64,
    pub stale_reads: u64,
    pub spurious: u64,
    pub nested_run: u32,
    pub sched_used: usize,
    pub violations: Vec<Violation>,
}

#[derive(Clone, Debug, PartialEq)]
enum Status {
    NotStarted,
    Runnable,
    BlockedMutex(usize),
    BlockedFd(i32),
    BlockedSync(u32),
    /// runnable only when nobody else is (quiescence observer)
    WaitIdle,
    Done,
}

struct Th {
    status: Status,
    yielded: bool,
    vc: Vc,
    depth: u32,
    points: u32,
    class_points: [u32; 5],
    floor: HashMap<usize, usize>,
    spurious_in_row: u32,
    ptr_loads: u32,
    held_until: u64,
}

struct StoreRec {
    val: u64,
    at: Vc,
    rel: Vc,
    /// written by a SeqCst operation (a SeqCst load may not read anything older than the newest
    /// of these; newer non-SeqCst stores are allowed to be invisible to it)
    sc: bool,
}

struct Loc {
    stores: Vec<StoreRec>,
}

#[derive(Default)]
struct Mx {
    owner: Option<usize>,
    vc: Vc,
}

#[derive(Default)]
struct SyncVar {
    set: bool,
    vc: Vc,
}

/// Snapshot lifetime tracker (C01 safety net, always on).
#[derive(Default)]
struct Snap {
    /// addr -> (epoch, alive, open sections)
    cur: HashMap<usize, (u32, bool, i32)>,
    epochs: u32,
    /// addr -> clock of the allocating thread at Alloc (only snapshots created by `store`)
    alloc_vc: HashMap<usize, (i32, Vc)>,
    /// addr -> (thread, clock) of every read section closed on the current epoch
    closed: HashMap<usize, Vec<(i32, Vc)>>,
}

/// Channel cell race tracker (C07, always on).
#[derive(Default)]
struct Cells {
    /// cell addr -> (vc of last access, tid, depth, kind)
    last: HashMap<usize, (Vc, i32, Event)>,
    /// cell addr -> (vc, tid) of the last raw access (UnsafeCell::get)
    access: HashMap<usize, (Vc, i32)>,
}

struct State {
    cfg: Config,
    cursor: usize,
    zero_run: u32,
    nthreads: usize,
    threads: Vec<Th>,
    cur: usize,
    started: bool,
    finished: bool,
    aborted: bool,
    outcome: Option<Outcome>,
    step: u64,
    switches: u64,
    stale_reads: u64,
    spurious: u64,
    nested_run: u32,
    locs: HashMap<usize, Loc>,
    mutexes: HashMap<usize, Mx>,
    syncs: HashMap<u32, SyncVar>,
    log: Vec<Rec>,
    violations: Vec<Violation>,
    solo: Option<usize>,
    solo_blocked: bool,
    solo_waited: u32,
    next_call: u32,
    snap: Snap,
    cells: Cells,
    nested_done: Vec<bool>,
    driver_depth: u32,
    script_pos: usize,
    script_count: u32,
    /// self-pipe transfers synchronise: a byte written after X and read before Y orders X before Y
    pipe_vc: Vc,
}

pub struct Exec {
    m: Mutex<State>,
    cvs: Vec<Condvar>,
    driver_cv: Condvar,
    nested_fn: Mutex<Option<Arc<dyn Fn(u32) + Send + Sync>>>,
    aborted_flag: std::sync::atomic::AtomicBool,
    abort_unwind: bool,
}

thread_local! {
    static VT: RefCell<Option<(Arc<Exec>, usize)>> = const { RefCell::new(None) };
    static LAST_PANIC: RefCell<Option<String>> = const { RefCell::new(None) };
}

static CURRENT: Mutex<Option<Arc<Exec>>> = Mutex::new(None);

fn current() -> Option<Arc<Exec>> {
    CURRENT.lock().unwrap_or_else(|p| p.into_inner()).clone()
}

fn vt() -> Option<(Arc<Exec>, usize)> {
    let r = VT.try_with(|v| v.borrow().clone()).ok().flatten();
    match r {
        // destructors running while a thread unwinds out of an aborted case must not reach
        // the scheduler again
        Some((e, _)) if e.aborted_flag.load(Ordering::SeqCst) && std::thread::panicking() => None,
        r => r,
    }
}

fn park_forever() -> ! {
    loop {
        std::thread::park();
    }
}

/// Payload used to unwind a virtual thread out of an aborted case.
pub struct AbortToken;

static UNWIND_MODE: std::sync::atomic::AtomicBool = std::sync::atomic::AtomicBool::new(false);

/// Leave an aborted case from inside a hook.
fn bail() -> ! {
    if UNWIND_MODE.load(Ordering::SeqCst) && !std::thread::panicking() {
        std::panic::resume_unwind(Box::new(AbortToken));
    }
    park_forever()
}

struct TheHooks;
static THE_HOOKS: TheHooks = TheHooks;

/// Install the hook table and a quiet panic hook (once per process).
pub fn install() {
    static ONCE: std::sync::Once = std::sync::Once::new();
    ONCE.call_once(|| {
        shim::install(&THE_HOOKS);
        let default = std::panic::take_hook();
        std::panic::set_hook(Box::new(move |info| {
            let msg = if let Some(s) = info.payload().downcast_ref::<&str>() {
                s.to_string()
            } else if let Some(s) = info.payload().downcast_ref::<String>() {
                s.clone()
            } else {
                "<non-string panic>".to_string()
            };
            let loc = info
                .location()
                .map(|l| format!("{}:{}", l.file(), l.line()))
                .unwrap_or_default();
            let _ = LAST_PANIC.try_with(|p| *p.borrow_mut() = Some(format!("{} @ {}", msg, loc)));
            if std::env::var_os("VERIF_LOUD_PANICS").is_some() {
                default(info);
            }
        }));
    });
}

pub fn take_last_panic() -> Option<String> {
    LAST_PANIC.try_with(|p| p.borrow_mut().take()).ok().flatten()
}

fn has_acq(o: Ordering) -> bool {
    matches!(o, Ordering::Acquire | Ordering::AcqRel | Ordering::SeqCst)
}
fn has_rel(o: Ordering) -> bool {
    matches!(o, Ordering::Release | Ordering::AcqRel | Ordering::SeqCst)
}

impl State {
    fn lock(e: &Exec) -> MutexGuard<'_, State> {
        e.m.lock().unwrap_or_else(|p| p.into_inner())
    }

    fn next_byte(&mut self) -> u8 {
        if self.cursor < self.cfg.schedule.len() {
            let b = self.cfg.schedule[self.cursor];
            if b == 0 && self.zero_run + 1 < self.cfg.stretch.max(1) as u32 {
                self.zero_run += 1;
                return 0;
            }
            self.zero_run = 0;
            self.cursor += 1;
            b
        } else {
            0
        }
    }

    fn rec(&mut self, tid: i32, item: Item) {
        let (depth, vc) = if tid >= 0 {
            let t = &self.threads[tid as usize];
            (t.depth, t.vc)
        } else {
            (self.driver_depth, [0; MAX_THREADS])
        };
        self.log.push(Rec {
            step: self.step,
            tid,
            depth,
            vc,
            item,
        });
    }

    fn violate(&mut self, key: &str, msg: String) {
        self.violations.push(Violation {
            key: key.to_string(),
            msg,
            step: self.step,
        });
    }

    fn refresh_blocked(&mut self) {
        for i in 0..self.nthreads {
            match self.threads[i].status {
                Status::BlockedMutex(a) => {
                    if self.mutexes.get(&a).map_or(true, |m| m.owner.is_none()) {
                        self.threads[i].status = Status::Runnable;
                    }
                }
                Status::BlockedFd(fd) => {
                    if fd_readable(fd) {
                        self.threads[i].status = Status::Runnable;
                    }
                }
                Status::BlockedSync(x) => {
                    if self.syncs.get(&x).map_or(false, |s| s.set) {
                        self.threads[i].status = Status::Runnable;
                    }
                }
                _ => {}
            }
        }
        // a quiescence observer runs only when nothing else can
        let busy = (0..self.nthreads).any(|i| matches!(self.threads[i].status, Status::Runnable | Status::NotStarted));
        if !busy {
            for i in 0..self.nthreads {
                if self.threads[i].status == Status::WaitIdle {
                    self.threads[i].status = Status::Runnable;
                    break;
                }
            }
        }
    }

    /// Choose who runs next. `me` is the thread at the point (may be no longer runnable).
    fn choose(&mut self, me: usize) -> Option<usize> {
        self.refresh_blocked();
        if let Some(s) = self.solo {
            if self.threads[s].status == Status::Runnable {
                return Some(s);
            }
            // The solo thread cannot continue on its own.
            self.solo_blocked = true;
            self.solo = None;
        }
        while self.script_pos < self.cfg.script.len() {
            let (t, _, _) = self.cfg.script[self.script_pos];
            if t < self.nthreads && matches!(self.threads[t].status, Status::Runnable | Status::NotStarted) {
                return Some(t);
            }
            self.script_advance();
        }
        let n = self.nthreads;
        let mut cands: Vec<usize> = Vec::with_capacity(n);
        let mut late: Vec<usize> = Vec::new();
        for k in 0..n {
            let i = (me + k) % n;
            let t = &self.threads[i];
            if matches!(t.status, Status::Runnable | Status::NotStarted) {
                if t.yielded || t.held_until > self.step {
                    late.push(i);
                } else {
                    cands.push(i);
                }
            }
        }
        cands.extend(late);
        if cands.is_empty() {
            return None;
        }
        let idx = if cands.len() > 1 {
            let b = self.next_byte() as usize;
            (b * cands.len()) >> 8
        } else {
            0
        };
        Some(cands[idx])
    }

    fn script_advance(&mut self) {
        self.script_pos += 1;
        self.script_count = 0;
        if self.script_pos == self.cfg.script.len() {
            self.rec(-1, Item::Mark { name: "script-end", a: 0, b: 0 });
        }
    }

    /// Thread `me` arrives at a point of kind `kind`: does that complete the current directive?
    fn script_arrival(&mut self, me: usize, kind: Kind) {
        if self.script_pos < self.cfg.script.len() {
            let (t, class, n) = self.cfg.script[self.script_pos];
            if t == me {
                let hit = match class {
                    1 => kind == Kind::Body,
                    2 => matches!(kind, Kind::Spin | Kind::Yield),
                    3 => true,
                    _ => false,
                };
                if hit {
                    self.script_count += 1;
                    if self.script_count >= n {
                        self.script_advance();
                    }
                }
            }
        }
    }

    fn all_done(&self) -> bool {
        self.threads.iter().all(|t| t.status == Status::Done)
    }

    fn blocked_set(&self) -> Vec<(usize, String)> {
        self.threads
            .iter()
            .enumerate()
            .filter(|(_, t)| t.status != Status::Done)
            .map(|(i, t)| (i, format!("{:?}", t.status)))
            .collect()
    }
}

fn fd_open(fd: i32) -> bool {
    unsafe { libc::fcntl(fd, libc::F_GETFD) != -1 }
}

fn fd_readable(fd: i32) -> bool {
    let mut p = libc::pollfd {
        fd,
        events: libc::POLLIN,
        revents: 0,
    };
    let r = unsafe { libc::poll(&mut p, 1, 0) };
    r > 0 && (p.revents & (libc::POLLIN | libc::POLLHUP | libc::POLLERR | libc::POLLNVAL)) != 0
}

impl Exec {
    pub fn new(cfg: Config, nthreads: usize) -> Arc<Exec> {
        assert!(nthreads <= MAX_THREADS);
        install();
        let threads = (0..nthreads)
            .map(|_| Th {
                status: Status::NotStarted,
                yielded: false,
                ptr_loads: 0,
                held_until: 0,
                vc: [0; MAX_THREADS],
                depth: 0,
                points: 0,
                class_points: [0; 5],
                floor: HashMap::new(),
                spurious_in_row: 0,
            })
            .collect();
        let nested_done = vec![false; cfg.nested.len()];
        UNWIND_MODE.store(cfg.abort_unwind, Ordering::SeqCst);
        let abort_unwind = cfg.abort_unwind;
        let e = Arc::new(Exec {
            m: Mutex::new(State {
                cfg,
                cursor: 0,
                zero_run: 0,
                nthreads,
                threads,
                cur: usize::MAX,
                started: false,
                finished: false,
                aborted: false,
                outcome: None,
                step: 0,
                switches: 0,
                stale_reads: 0,
                spurious: 0,
                nested_run: 0,
                locs: HashMap::new(),
                mutexes: HashMap::new(),
                syncs: HashMap::new(),
                log: Vec::new(),
                violations: Vec::new(),
                solo: None,
                solo_blocked: false,
                solo_waited: 0,
                next_call: 0,
                snap: Snap::default(),
                cells: Cells::default(),
                nested_done,
                driver_depth: 0,
                script_pos: 0,
                script_count: 0,
                pipe_vc: [0; MAX_THREADS],
            }),
            cvs: (0..MAX_THREADS).map(|_| Condvar::new()).collect(),
            driver_cv: Condvar::new(),
            nested_fn: Mutex::new(None),
            aborted_flag: std::sync::atomic::AtomicBool::new(false),
            abort_unwind,
        });
        let old = CURRENT.lock().unwrap_or_else(|p| p.into_inner()).replace(e.clone());
        drop(old); // outside the lock: dropping an Exec may run harness destructors that log
        e
    }

    pub fn completed(&self) -> bool {
        State::lock(self).finished
    }

    pub fn set_nested_fn(&self, f: Arc<dyn Fn(u32) + Send + Sync>) {
        *self.nested_fn.lock().unwrap() = Some(f);
    }

    /// Abort the run from inside a hook: wake the driver, never return.
    fn abort_here(&self, mut st: MutexGuard<'_, State>, outcome: Outcome) -> ! {
        if !st.aborted {
            st.aborted = true;
            st.outcome = Some(outcome);
        }
        self.aborted_flag.store(true, Ordering::SeqCst);
        self.driver_cv.notify_all();
        for c in &self.cvs {
            c.notify_all();
        }
        drop(st);
        bail()
    }

    /// Wait until it is `me`'s turn. Returns the re-acquired state.
    fn wait_turn<'a>(&'a self, mut st: MutexGuard<'a, State>, me: usize) -> MutexGuard<'a, State> {
        while st.cur != me && !st.aborted {
            st = self.cvs[me].wait(st).unwrap_or_else(|p| p.into_inner());
        }
        if st.aborted {
            drop(st);
            bail();
        }
        st
    }

    /// The scheduling decision taken at every point. On return `me` holds the token.
    fn schedule<'a>(&'a self, mut st: MutexGuard<'a, State>, me: usize) -> MutexGuard<'a, State> {
        if st.aborted {
            drop(st);
            bail();
        }
        st.step += 1;
        if st.step > st.cfg.step_bound {
            self.abort_here(st, Outcome::StepBound);
        }
        match st.choose(me) {
            None => {
                let b = st.blocked_set();
                self.abort_here(st, Outcome::Deadlock(b));
            }
            Some(n) if n == me => st,
            Some(n) => {
                st.switches += 1;
                st.cur = n;
                // someone else steps: my yield flag stays, theirs is cleared when they step
                for i in 0..st.nthreads {
                    if i != n {
                        // another thread is about to make progress; yielded threads may be
                        // reconsidered afterwards
                    }
                }
                self.cvs[n].notify_all();
                self.wait_turn(st, me)
            }
        }
    }

    /// Common prologue of every scheduling point of thread `me`.
    fn point_prologue(self: &Arc<Self>, me: usize, is_wait: bool, kind: Kind) {
        let mut st = State::lock(self);
        st.script_arrival(me, kind);
        // A thread stepping clears the yield marks of everybody else.
        for i in 0..st.nthreads {
            if i != me {
                st.threads[i].yielded = false;
            }
        }
        if st.solo == Some(me) && is_wait {
            st.solo_waited += 1;
        }
        st.threads[me].points += 1;
        let pts = st.threads[me].points;
        let class = match kind {
            Kind::CellAccess => 1,
            Kind::PipeDrain => 2,
            Kind::BlockReadable => 3,
            Kind::PipeWake => 4,
            _ => 0,
        };
        if class > 0 {
            st.threads[me].class_points[class] += 1;
        }
        let cpts = st.threads[me].class_points;
        st.threads[me].vc[me] += 1;
        let st = self.schedule(st, me);
        // nested injection?
        let mut inject: Vec<u32> = Vec::new();
        let mut st = st;
        for k in 0..st.cfg.nested.len() {
            let nk = &st.cfg.nested[k];
            let hit = if nk.on == 0 { nk.at == pts } else { nk.on as usize == class && nk.at == cpts[class] };
            if !st.nested_done[k] && nk.thread == me && hit {
                st.nested_done[k] = true;
                inject.push(st.cfg.nested[k].id);
            }
        }
        drop(st);
        if !inject.is_empty() {
            let f = self.nested_fn.lock().unwrap().clone();
            if let Some(f) = f {
                for id in inject {
                    {
                        let mut st = State::lock(self);
                        st.nested_run += 1;
                        st.rec(me as i32, Item::NestedStart { id });
                    }
                    crate::alloc::as_library(|| f(id));
                    {
                        let mut st = State::lock(self);
                        st.rec(me as i32, Item::NestedEnd { id });
                    }
                }
            }
        }
    }

    fn do_atomic(
        self: &Arc<Self>,
        me: usize,
        op: &OpDesc,
        real: &dyn Fn(bool) -> Real,
    ) -> (u64, bool) {
        self.point_prologue(me, false, op.kind);
        let mut st = State::lock(self);
        let weak = st.cfg.weak;
        let log_ops = st.cfg.log_ops;
        if op.kind == Kind::Fence {
            real(true);
            return (0, true);
        }
        // Validate / lazily initialise the store history of this location against the real
        // current value (set-up code and address reuse write behind the executor's back; both
        // happen-before any access that can legally reach the location).
        let (cur, _, _) = real(false);
        {
            let l = st.locs.entry(op.addr).or_insert(Loc { stores: Vec::new() });
            if l.stores.last().map_or(true, |x| x.val != cur) {
                l.stores.clear();
                l.stores.push(StoreRec {
                    val: cur,
                    at: [0; MAX_THREADS],
                    rel: [0; MAX_THREADS],
                    sc: true,
                });
                for t in st.threads.iter_mut() {
                    t.floor.remove(&op.addr);
                }
            }
        }
        let tvc = st.threads[me].vc;
        let last = st.locs[&op.addr].stores.len() - 1;
        let mut stale = 0u32;
        let mut spurious = false;
        let result: (u64, u64, bool);
        match op.kind {
            Kind::Load => {
                real(true);
                let mut idx = last;
                if weak && last > 0 {
                    // lower bound: coherence floor and newest hb-visible store (and, for a SeqCst
                    // load, the newest SeqCst store)
                    let mut m = *st.threads[me].floor.get(&op.addr).unwrap_or(&0);
                    if op.success == Ordering::SeqCst {
                        let stores = &st.locs[&op.addr].stores;
                        let mut k = last;
                        while k > m {
                            if stores[k].sc {
                                m = k;
                                break;
                            }
                            k -= 1;
                        }
                    }
                    {
                        let stores = &st.locs[&op.addr].stores;
                        let mut k = last;
                        while k > m {
                            if vc_le(&stores[k].at, &tvc) {
                                m = k;
                                break;
                            }
                            k -= 1;
                        }
                    }
                    if m < last {
                        let b = st.next_byte() as usize;
                        let back = (b * (last - m + 1)) >> 8;
                        idx = last - back;
                        stale = back as u32;
                        if back > 0 {
                            st.stale_reads += 1;
                        }
                    }
                }
                let (val, rel) = {
                    let x = &st.locs[&op.addr].stores[idx];
                    (x.val, x.rel)
                };
                let fl = st.threads[me].floor.entry(op.addr).or_insert(0);
                if idx > *fl {
                    *fl = idx;
                }
                if has_acq(op.success) {
                    vc_join(&mut st.threads[me].vc, &rel);
                }
                if val >= (1u64 << 32) && st.threads[me].depth == 0 {
                    st.threads[me].ptr_loads += 1;
                    if let Some((t, k, steps)) = st.cfg.hold {
                        if t == me && st.threads[me].ptr_loads == k {
                            st.threads[me].held_until = st.step + steps as u64;
                            st.rec(me as i32, Item::Mark { name: "held-after-pointer-load", a: k as i64, b: steps as i64 });
                        }
                    }
                }
                result = (val, val, true);
            }
            Kind::Store => {
                let (_, new, _) = real(true);
                let rel = if has_rel(op.success) { tvc } else { [0; MAX_THREADS] };
                let l = st.locs.get_mut(&op.addr).unwrap();
                l.stores.push(StoreRec { val: new, at: tvc, rel, sc: op.success == Ordering::SeqCst });
                let n = l.stores.len() - 1;
                st.threads[me].floor.insert(op.addr, n);
                result = (cur, new, true);
            }
            _ => {
                // RMW family (swap, fetch_*, cas): always reads the latest value
                if op.kind == Kind::CasWeak
                    && weak
                    && st.threads[me].spurious_in_row < 3
                    && cur == op.expected
                {
                    let b = st.next_byte();
                    if b >= 224 {
                        spurious = true;
                    }
                }
                let prev_rel = st.locs[&op.addr].stores[last].rel;
                if spurious {
                    st.spurious += 1;
                    st.threads[me].spurious_in_row += 1;
                    st.threads[me].floor.insert(op.addr, last);
                    if has_acq(op.failure) {
                        vc_join(&mut st.threads[me].vc, &prev_rel);
                    }
                    result = (cur, cur, false);
                } else {
                    st.threads[me].spurious_in_row = 0;
                    let (old, new, ok) = real(true);
                    debug_assert_eq!(old, cur);
                    if ok {
                        if has_acq(op.success) {
                            vc_join(&mut st.threads[me].vc, &prev_rel);
                        }
                        let tv = st.threads[me].vc;
                        let mut rel = prev_rel; // an RMW continues the release sequence
                        if has_rel(op.success) {
                            vc_join(&mut rel, &tv);
                        }
                        let l = st.locs.get_mut(&op.addr).unwrap();
                        l.stores.push(StoreRec { val: new, at: tv, rel, sc: op.success == Ordering::SeqCst });
                        let n = l.stores.len() - 1;
                        st.threads[me].floor.insert(op.addr, n);
                    } else {
                        st.threads[me].floor.insert(op.addr, last);
                        if has_acq(op.failure) {
                            vc_join(&mut st.threads[me].vc, &prev_rel);
                        }
                    }
                    result = (old, new, ok);
                }
            }
        }
        if log_ops {
            st.rec(
                me as i32,
                Item::Op {
                    kind: op.kind,
                    addr: op.addr,
                    old: result.0,
                    new: result.1,
                    ok: result.2,
                    ord: op.success,
                    stale,
                    spurious,
                },
            );
        }
        (result.0, result.2)
    }

    fn do_mutex_lock(self: &Arc<Self>, me: usize, addr: usize) {
        // Mark as blocked *before* the scheduling decision when the mutex is owned.
        {
            let mut st = State::lock(self);
            let owner = st.mutexes.entry(addr).or_default().owner;
            if let Some(o) = owner {
                if o == me {
                    // self-deadlock: a handler waits for a lock its own thread holds
                    st.rec(me as i32, Item::Blocked { what: "self-deadlock", a: addr });
                    st.violate("vsched/self-deadlock", format!("thread {} relocks mutex it holds", me));
                }
                st.threads[me].status = Status::BlockedMutex(addr);
                st.rec(me as i32, Item::Blocked { what: "mutex", a: addr });
            }
        }
        loop {
            self.point_prologue(me, true, Kind::MutexLock);
            let mut st = State::lock(self);
            let free = st.mutexes.entry(addr).or_default().owner.is_none();
            if free {
                let mvc = st.mutexes[&addr].vc;
                st.mutexes.get_mut(&addr).unwrap().owner = Some(me);
                vc_join(&mut st.threads[me].vc, &mvc);
                st.threads[me].status = Status::Runnable;
                st.rec(me as i32, Item::Lock { addr });
                return;
            }
            st.threads[me].status = Status::BlockedMutex(addr);
        }
    }

    fn do_mutex_try_lock(self: &Arc<Self>, me: usize, addr: usize) -> bool {
        self.point_prologue(me, false, Kind::MutexTryLock);
        let mut st = State::lock(self);
        let free = st.mutexes.entry(addr).or_default().owner.is_none();
        if free {
            let mvc = st.mutexes[&addr].vc;
            st.mutexes.get_mut(&addr).unwrap().owner = Some(me);
            vc_join(&mut st.threads[me].vc, &mvc);
        }
        st.rec(me as i32, Item::TryLock { addr, ok: free });
        free
    }

    fn do_mutex_unlock(self: &Arc<Self>, me: usize, addr: usize) {
        let mut st = State::lock(self);
        let tvc = st.threads[me].vc;
        let m = st.mutexes.entry(addr).or_default();
        m.owner = None;
        m.vc = tvc;
        st.rec(me as i32, Item::Unlock { addr });
    }

    fn do_point(self: &Arc<Self>, me: usize, kind: Kind, a: usize) {
        let is_wait = matches!(kind, Kind::Yield | Kind::Spin);
        if is_wait {
            let mut st = State::lock(self);
            st.threads[me].yielded = true;
        }
        self.point_prologue(me, is_wait, kind);
        let mut st = State::lock(self);
        st.rec(me as i32, Item::Point { kind, a });
        if kind == Kind::PipeWake {
            if !fd_open(a as i32) {
                st.violate(
                    "C13/wake-after-release",
                    format!("a wake-up write was attempted on descriptor {} which is already closed (the action outlived its self-pipe)", a),
                );
            }
            let tv = st.threads[me].vc;
            vc_join(&mut st.pipe_vc, &tv);
        } else if kind == Kind::PipeDrain && fd_readable(a as i32) {
            let pv = st.pipe_vc;
            vc_join(&mut st.threads[me].vc, &pv);
        }
        if kind == Kind::CellAccess {
            // Unsynchronised memory: every access must happen-after the previous access by
            // another thread, judged by the declared orderings.
            let now = st.threads[me].vc;
            let prev = st.cells.access.get(&a).cloned();
            st.cells.access.insert(a, (now, me as i32));
            if let Some((pvc, ptid)) = prev {
                if ptid != me as i32 && !vc_le(&pvc, &now) {
                    st.violate(
                        "C07/race",
                        format!(
                            "cell access by thread {} is not ordered after the previous access by thread {}",
                            me, ptid
                        ),
                    );
                    if st.cfg.abort_on_cell_race {
                        self.abort_here(st, Outcome::Aborted);
                    }
                }
            }
        }
    }

    fn do_block_readable(self: &Arc<Self>, me: usize, fd: i32) {
        {
            let mut st = State::lock(self);
            if !fd_readable(fd) {
                st.threads[me].status = Status::BlockedFd(fd);
                st.rec(me as i32, Item::Blocked { what: "fd", a: fd as usize });
            }
        }
        loop {
            self.point_prologue(me, true, Kind::BlockReadable);
            let mut st = State::lock(self);
            if fd_readable(fd) {
                st.threads[me].status = Status::Runnable;
                st.rec(me as i32, Item::Point { kind: Kind::BlockReadable, a: fd as usize });
                let pv = st.pipe_vc;
                vc_join(&mut st.threads[me].vc, &pv);
                return;
            }
            st.threads[me].status = Status::BlockedFd(fd);
        }
    }

    fn do_event(self: &Arc<Self>, tid: i32, ev: Event, a: usize, b: usize) {
        let mut st = State::lock(self);
        if st.aborted {
            drop(st);
            if tid < 0 || std::thread::panicking() {
                return;
            }
            bail();
        }
        st.rec(tid, Item::Event { ev, a, b });
        let depth = if tid >= 0 { st.threads[tid as usize].depth } else { st.driver_depth };
        let mut bad: Option<(&'static str, String)> = None;
        match ev {
            Event::Alloc => {
                st.snap.epochs += 1;
                let e = st.snap.epochs;
                st.snap.cur.insert(a, (e, true, 0));
                st.snap.closed.remove(&a);
                st.snap.alloc_vc.remove(&a);
                if b != 0 && tid >= 0 {
                    // created by `store`: it reaches readers only through the atomic pointer
                    let v = st.threads[tid as usize].vc;
                    st.snap.alloc_vc.insert(a, (tid, v));
                }
            }
            Event::Free => match st.snap.cur.get_mut(&a) {
                Some(s) => {
                    if !s.1 {
                        bad = Some(("C01/double-free", format!("snapshot #{} freed twice", s.0)));
                    } else if s.2 > 0 {
                        bad = Some((
                            "C01/free-while-open",
                            format!("snapshot #{} freed while {} read section(s) open", s.0, s.2),
                        ));
                    } else if depth > 0 {
                        bad = Some((
                            "C01/freed-in-handler",
                            format!("snapshot #{} freed at handler depth {}", s.0, depth),
                        ));
                    }
                    s.1 = false;
                    let epoch = s.0;
                    // every read section on it must have ended *before* the free in the
                    // happens-before order given by the declared orderings (the reader's last
                    // reads may otherwise still be in flight when the memory is released)
                    if bad.is_none() && tid >= 0 {
                        let now = st.threads[tid as usize].vc;
                        if let Some(cl) = st.snap.closed.get(&a) {
                            for (rt, rvc) in cl {
                                if *rt >= 0 && *rt != tid && rvc[*rt as usize] > now[*rt as usize] {
                                    bad = Some((
                                        "C01/free-unordered-after-reader",
                                        format!("snapshot #{} freed by thread {} without a happens-before edge from the end of thread {}'s read section (declared orderings do not order the reader's last accesses before the release)", epoch, tid, rt),
                                    ));
                                    break;
                                }
                            }
                        }
                    }
                }
                None => {}
            },
            Event::SectionOpen => match st.snap.cur.get_mut(&a) {
                Some(s) => {
                    if !s.1 {
                        bad = Some((
                            "C01/open-after-free",
                            format!("read section opened on freed snapshot #{}", s.0),
                        ));
                    } else {
                        s.2 += 1;
                        let epoch = s.0;
                        if tid >= 0 {
                            if let Some((wt, wvc)) = st.snap.alloc_vc.get(&a).cloned() {
                                let now = st.threads[tid as usize].vc;
                                if wt != tid && wvc[wt as usize] > now[wt as usize] {
                                    bad = Some((
                                        "C01/snapshot-unpublished",
                                        format!("thread {} opened a read section on snapshot #{} without a happens-before edge from its initialisation by thread {} (the pointer was published with too weak an ordering)", tid, epoch, wt),
                                    ));
                                }
                            }
                        }
                    }
                }
                None => {}
            },
            Event::SectionClose => {
                let mut live = false;
                if let Some(s) = st.snap.cur.get_mut(&a) {
                    if s.1 {
                        s.2 -= 1;
                        live = true;
                    }
                }
                if live && tid >= 0 {
                    let v = st.threads[tid as usize].vc;
                    st.snap.closed.entry(a).or_default().push((tid, v));
                }
            }
            Event::CellWrite | Event::CellTake => {
                let now: Vc = if tid >= 0 {
                    st.threads[tid as usize].vc
                } else if st.finished || st.aborted {
                    [u32::MAX; MAX_THREADS]
                } else {
                    [0; MAX_THREADS]
                };
                if let Some((_pvc, ptid, pev)) = st.cells.last.get(&a).cloned() {
                    if pev == ev {
                        bad = Some((
                            "C07/cell-protocol",
                            format!(
                                "two consecutive {:?} on one cell (threads {} then {}): two owners of one slot",
                                ev, ptid, tid
                            ),
                        ));
                    }
                } else if ev == Event::CellTake {
                    bad = Some(("C07/cell-protocol", "take from a cell never written".to_string()));
                }
                st.cells.last.insert(a, (now, tid, ev));
            }
            _ => {}
        }
        if let Some((k, m)) = bad {
            st.violate(k, m);
            if tid >= 0 && (st.cfg.abort_on_cell_race || !k.starts_with("C07/")) {
                // Never let the code touch freed/raced memory: stop the case here.
                self.abort_here(st, Outcome::Aborted);
            }
        }
    }

    /// Run the given bodies as virtual threads to completion (or abort). Must be called by the
    /// driver (a non-virtual thread).
    pub fn run(self: &Arc<Self>, bodies: Vec<Box<dyn FnOnce() + Send + 'static>>) {
        let n = bodies.len();
        {
            let st = State::lock(self);
            assert_eq!(n, st.nthreads);
        }
        let mut handles = Vec::new();
        for (i, body) in bodies.into_iter().enumerate() {
            let me = self.clone();
            let h = std::thread::Builder::new()
                .stack_size(512 * 1024)
                .spawn(move || {
                    VT.with(|v| *v.borrow_mut() = Some((me.clone(), i)));
                    let me2 = me.clone();
                    let r = std::panic::catch_unwind(std::panic::AssertUnwindSafe(move || {
                        {
                            let st = State::lock(&me2);
                            let mut st = me2.wait_turn(st, i);
                            st.threads[i].status = Status::Runnable;
                        }
                        body()
                    }));
                    let mut st = State::lock(&me);
                    if let Err(p) = r {
                        if p.is::<AbortToken>() {
                            // left an aborted case
                            st.threads[i].status = Status::Done;
                            drop(st);
                            VT.with(|v| *v.borrow_mut() = None);
                            return;
                        }
                        let msg = take_last_panic().unwrap_or_default();
                        st.rec(i as i32, Item::Panic { msg });
                    }
                    if st.aborted {
                        st.threads[i].status = Status::Done;
                        drop(st);
                        VT.with(|v| *v.borrow_mut() = None);
                        return;
                    }
                    st.rec(i as i32, Item::ThreadDone);
                    st.threads[i].status = Status::Done;
                    if st.solo == Some(i) {
                        st.solo = None;
                    }
                    for k in 0..st.nthreads {
                        st.threads[k].yielded = false;
                    }
                    if st.all_done() {
                        st.finished = true;
                        st.outcome = Some(Outcome::Completed);
                        me.driver_cv.notify_all();
                    } else {
                        match st.choose(i) {
                            Some(nx) => {
                                st.cur = nx;
                                st.switches += 1;
                                me.cvs[nx].notify_all();
                            }
                            None => {
                                let b = st.blocked_set();
                                st.aborted = true;
                                me.aborted_flag.store(true, Ordering::SeqCst);
                                st.outcome = Some(Outcome::Deadlock(b));
                                me.driver_cv.notify_all();
                                for c in &me.cvs {
                                    c.notify_all();
                                }
                            }
                        }
                    }
                    drop(st);
                    VT.with(|v| *v.borrow_mut() = None);
                })
                .expect("spawn");
            handles.push(h);
        }
        // start: pick the first thread
        {
            let mut st = State::lock(self);
            st.started = true;
            let first = st.choose(0).expect("no threads");
            st.cur = first;
            self.cvs[first].notify_all();
            while !st.finished && !st.aborted {
                st = self.driver_cv.wait(st).unwrap_or_else(|p| p.into_inner());
            }
        }
        let completed = { State::lock(self).finished };
        if completed || self.abort_unwind {
            for h in handles {
                let _ = h.join();
            }
        }
        // else: leaked parked threads (in-process) or the child _exits (fork mode)
    }

    /// Finish: detach from the global slot and return what was recorded.
    pub fn finish(self: &Arc<Self>) -> RunResult {
        let old = {
            let mut c = CURRENT.lock().unwrap_or_else(|p| p.into_inner());
            if c.as_ref().map_or(false, |cur| Arc::ptr_eq(cur, self)) {
                c.take()
            } else {
                None
            }
        };
        drop(old);
        // break the reference cycle Exec -> nested_fn -> harness objects
        let f = self.nested_fn.lock().unwrap_or_else(|p| p.into_inner()).take();
        drop(f);
        let mut st = State::lock(self);
        RunResult {
            outcome: st.outcome.clone().unwrap_or(Outcome::Completed),
            log: std::mem::take(&mut st.log),
            steps: st.step,
            switches: st.switches,
            stale_reads: st.stale_reads,
            spurious: st.spurious,
            nested_run: st.nested_run,
            sched_used: st.cursor,
            violations: st.violations.clone(),
        }
    }
}

impl Hooks for TheHooks {
    fn atomic(&self, op: &OpDesc, real: &dyn Fn(bool) -> Real) -> (u64, bool) {
        let _h = crate::alloc::Harness::enter();
        match vt() {
            Some((e, me)) => e.do_atomic(me, op, real),
            None => {
                let (old, _, ok) = real(true);
                (old, ok)
            }
        }
    }
    fn mutex_lock(&self, addr: usize) {
        let _h = crate::alloc::Harness::enter();
        if let Some((e, me)) = vt() {
            e.do_mutex_lock(me, addr)
        }
    }
    fn mutex_try_lock(&self, addr: usize) -> bool {
        let _h = crate::alloc::Harness::enter();
        match vt() {
            Some((e, me)) => e.do_mutex_try_lock(me, addr),
            None => true,
        }
    }
    fn mutex_unlock(&self, addr: usize, _panicking: bool) {
        let _h = crate::alloc::Harness::enter();
        if let Some((e, me)) = vt() {
            e.do_mutex_unlock(me, addr)
        }
    }
    fn point(&self, op: &OpDesc) {
        let _h = crate::alloc::Harness::enter();
        if let Some((e, me)) = vt() {
            e.do_point(me, op.kind, op.addr)
        }
    }
    fn block_readable(&self, fd: i32) {
        let _h = crate::alloc::Harness::enter();
        if let Some((e, me)) = vt() {
            e.do_block_readable(me, fd)
        }
    }
    fn event(&self, ev: Event, a: usize, b: usize) {
        let _h = crate::alloc::Harness::enter();
        match vt() {
            Some((e, me)) => e.do_event(me as i32, ev, a, b),
            None => {
                if let Some(e) = current() {
                    e.do_event(-1, ev, a, b)
                }
            }
        }
    }
}

// ---------------------------------------------------------------------------------------------
// Harness-side API usable from thread bodies and from registered actions.

/// Virtual thread id of the caller, if any.
pub fn tid() -> Option<usize> {
    let _h = crate::alloc::Harness::enter();
    vt().map(|(_, t)| t)
}

/// Log the start of an API call; returns its id.
pub fn call(name: &'static str, a: i64, b: i64) -> u32 {
    let _h = crate::alloc::Harness::enter();
    match vt() {
        Some((e, me)) => {
            let mut st = State::lock(&e);
            let id = st.next_call;
            st.next_call += 1;
            st.rec(me as i32, Item::Call { id, name, a, b });
            id
        }
        None => match current() {
            Some(e) => {
                let mut st = State::lock(&e);
                let id = st.next_call;
                st.next_call += 1;
                st.rec(-1, Item::Call { id, name, a, b });
                id
            }
            None => 0,
        },
    }
}

pub fn ret(id: u32, r: i64) {
    let _h = crate::alloc::Harness::enter();
    match vt() {
        Some((e, me)) => State::lock(&e).rec(me as i32, Item::Ret { id, r }),
        None => {
            if let Some(e) = current() {
                State::lock(&e).rec(-1, Item::Ret { id, r })
            }
        }
    }
}

pub fn mark(name: &'static str, a: i64, b: i64) {
    let _h = crate::alloc::Harness::enter();
    match vt() {
        Some((e, me)) => State::lock(&e).rec(me as i32, Item::Mark { name, a, b }),
        None => {
            if let Some(e) = current() {
                State::lock(&e).rec(-1, Item::Mark { name, a, b })
            }
        }
    }
}

/// A harness-level scheduling point (e.g. inside an action body).
pub fn body_point(tag: usize) {
    let _h = crate::alloc::Harness::enter();
    if let Some((e, me)) = vt() {
        e.do_point(me, Kind::Body, tag)
    }
}

/// Current handler depth of the calling context.
pub fn depth() -> u32 {
    let _h = crate::alloc::Harness::enter();
    match vt() {
        Some((e, me)) => State::lock(&e).threads[me].depth,
        None => current().map(|e| State::lock(&e).driver_depth).unwrap_or(0),
    }
}

/// Run `f` as a signal handler would run: handler depth +1 for its duration.
pub fn in_handler<R>(f: impl FnOnce() -> R) -> R {
    let _h = crate::alloc::Harness::enter();
    let f = || crate::alloc::as_library(f);
    match vt() {
        Some((e, me)) => {
            State::lock(&e).threads[me].depth += 1;
            let r = f();
            State::lock(&e).threads[me].depth -= 1;
            r
        }
        None => match current() {
            Some(e) => {
                State::lock(&e).driver_depth += 1;
                let r = f();
                State::lock(&e).driver_depth -= 1;
                r
            }
            None => f(),
        },
    }
}

/// Run `f` with every other virtual thread frozen. Records SoloStart/SoloEnd.
pub fn solo<R>(f: impl FnOnce() -> R) -> R {
    let _h = crate::alloc::Harness::enter();
    let f = || crate::alloc::as_library(f);
    match vt() {
        Some((e, me)) => {
            {
                let mut st = State::lock(&e);
                st.solo = Some(me);
                st.solo_blocked = false;
                st.solo_waited = 0;
                st.rec(me as i32, Item::SoloStart);
            }
            let r = f();
            {
                let mut st = State::lock(&e);
                let blocked = st.solo_blocked;
                let waited = st.solo_waited;
                if st.solo == Some(me) {
                    st.solo = None;
                }
                st.rec(me as i32, Item::SoloEnd { blocked, waited });
            }
            r
        }
        None => f(),
    }
}

/// Harness synchronisation variable: signal (release).
pub fn sync_signal(x: u32) {
    let _h = crate::alloc::Harness::enter();
    if let Some((e, me)) = vt() {
        e.point_prologue(me, false, Kind::Body);
        let mut st = State::lock(&e);
        let tvc = st.threads[me].vc;
        let s = st.syncs.entry(x).or_default();
        s.set = true;
        vc_join(&mut s.vc, &tvc);
        st.rec(me as i32, Item::Mark { name: "sync_signal", a: x as i64, b: 0 });
    }
}

/// Harness synchronisation variable: wait (acquire), blocks the virtual thread until signalled.
pub fn sync_wait(x: u32) {
    let _h = crate::alloc::Harness::enter();
    if let Some((e, me)) = vt() {
        {
            let mut st = State::lock(&e);
            if !st.syncs.entry(x).or_default().set {
                st.threads[me].status = Status::BlockedSync(x);
            }
        }
        loop {
            e.point_prologue(me, true, Kind::Body);
            let mut st = State::lock(&e);
            if st.syncs.entry(x).or_default().set {
                let v = st.syncs[&x].vc;
                vc_join(&mut st.threads[me].vc, &v);
                st.threads[me].status = Status::Runnable;
                st.rec(me as i32, Item::Mark { name: "sync_wait", a: x as i64, b: 0 });
                return;
            }
            st.threads[me].status = Status::BlockedSync(x);
        }
    }
}

/// Block the calling virtual thread until no other thread can run (all others blocked or done).
/// Returns a description of who is blocked on what.
pub fn wait_idle() -> Vec<(usize, String)> {
    let _h = crate::alloc::Harness::enter();
    if let Some((e, me)) = vt() {
        {
            let mut st = State::lock(&e);
            st.threads[me].status = Status::WaitIdle;
        }
        loop {
            e.point_prologue(me, true, Kind::Body);
            let mut st = State::lock(&e);
            if st.threads[me].status == Status::Runnable {
                let others: Vec<(usize, String)> = st
                    .threads
                    .iter()
                    .enumerate()
                    .filter(|(i, t)| *i != me && t.status != Status::Done)
                    .map(|(i, t)| (i, format!("{:?}", t.status)))
                    .collect();
                st.rec(me as i32, Item::Mark { name: "idle", a: others.len() as i64, b: 0 });
                return others;
            }
            st.threads[me].status = Status::WaitIdle;
        }
    }
    vec![]
}

/// The caller just read a byte from the self-pipe: everything before the matching write
/// happens-before what follows.
pub fn pipe_acquire() {
    let _h = crate::alloc::Harness::enter();
    if let Some((e, me)) = vt() {
        let mut st = State::lock(&e);
        let pv = st.pipe_vc;
        vc_join(&mut st.threads[me].vc, &pv);
    }
}

/// Block the calling virtual thread until `fd` is readable (an async task parked on a waker).
pub fn block_fd(fd: i32) {
    let _h = crate::alloc::Harness::enter();
    if let Some((e, me)) = vt() {
        e.do_block_readable(me, fd)
    }
}

/// Record a violation found by a harness-side on-line check and stop the case.
pub fn violate_and_abort(key: &str, msg: String) -> ! {
    match vt() {
        Some((e, _)) => {
            let mut st = State::lock(&e);
            st.violate(key, msg);
            e.abort_here(st, Outcome::Aborted)
        }
        None => panic!("violate_and_abort outside virtual thread: {} {}", key, msg),
    }
}

/// Record a violation without stopping.
pub fn violate(key: &str, msg: String) {
    let _h = crate::alloc::Harness::enter();
    match vt() {
        Some((e, _)) => State::lock(&e).violate(key, msg),
        None => {
            if let Some(e) = current() {
                State::lock(&e).violate(key, msg)
            }
        }
    }
}

/// Record a panic caught on the driver thread.
pub fn driver_panic(msg: String) {
    let _h = crate::alloc::Harness::enter();
    if let Some(e) = current() {
        State::lock(&e).rec(-1, Item::Panic { msg });
    }
}
