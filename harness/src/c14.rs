//! C14 — forbidden and invalid signals are refused before anything changes (forkprobe).

use crate::driver::*;
use crate::forkrun::*;
use libc::c_int;
use proptest::collection::vec;
use proptest::prelude::*;
use serde::{Deserialize, Serialize};
use serde_json::{json, Value};
use signal_hook::iterator::exfiltrator::{WithOrigin, WithRawSiginfo};
use signal_hook::iterator::{Signals, SignalsInfo};
use std::os::unix::io::{AsRawFd, IntoRawFd};
use std::os::unix::net::UnixStream;
use std::sync::atomic::{AtomicBool, AtomicUsize, Ordering};
use std::sync::Arc;

pub const ENTRIES: [&str; 16] = [
    "registry::register",
    "registry::register_sigaction",
    "low_level::register",
    "flag::register",
    "flag::register_usize",
    "flag::register_conditional_shutdown",
    "flag::register_conditional_default",
    "pipe::register",
    "pipe::register_raw",
    "Signals::new",
    "SignalsInfo<WithRawSiginfo>::new",
    "SignalsInfo<WithOrigin>::new",
    "Handle::add_signal",
    "SignalDelivery::with_pipe",
    "registry::register_signal_unchecked",
    "registry::register_unchecked",
];

/// valid, harmless signals used for prefixes and follow-ups
pub const SAFE: [c_int; 6] = [libc::SIGUSR1, libc::SIGUSR2, libc::SIGHUP, libc::SIGWINCH, libc::SIGALRM, libc::SIGURG];

#[derive(Clone, Debug, Serialize, Deserialize)]
pub struct C14Case {
    pub entry: u8,
    pub n: i32,
    pub prefix: Vec<u8>,
    /// forbidden-but-catchable signals (index into ILL, FPE, SEGV) registered beforehand through
    /// an unchecked entry point: the checked ones must keep refusing them
    #[serde(default)]
    pub unchecked_prefix: Vec<u8>,
    /// for the constructor entry points: valid signals (indices into SAFE) listed before `n`
    #[serde(default)]
    pub list_before: Vec<u8>,
    /// entry 12 (`Handle::add_signal`): state of the object the call is made on - 0 an open
    /// instance, 1 the instance was closed (`close()`) beforehand, 2 the handle has outlived its
    /// instance (dropped beforehand). The documented refusals do not depend on that state.
    #[serde(default)]
    pub object_state: u8,
}

pub fn numbers() -> Vec<i32> {
    let mut v: Vec<i32> = (-2..=130).collect();
    v.extend([i32::MIN, i32::MAX, 65536, -65536, 256 + 10, 1 << 20]);
    v
}

pub fn strategy() -> BoxedStrategy<C14Case> {
    let nums = numbers();
    let boundary: Vec<i32> = vec![-2, -1, 0, 4, 8, 9, 11, 19, 31, 32, 33, 34, 63, 64, 65, 66, 127, 128, 129, i32::MIN, i32::MAX];
    (
        0u8..16,
        prop_oneof![
            3 => proptest::sample::select(boundary),
            2 => proptest::sample::select(nums),
            1 => proptest::sample::select(vec![4, 8, 9, 11, 19]),
        ],
        vec(0u8..6, 0..5),
        prop_oneof![3 => Just(vec![]), 2 => vec(0u8..3, 1..3)],
        prop_oneof![1 => Just(vec![]), 1 => vec(0u8..6, 1..4)],
        0u8..3,
    )
        .prop_map(|(entry, n, prefix, unchecked_prefix, list_before, object_state)| {
            let list_before = if matches!(entry, 9 | 10 | 11 | 13) { list_before } else { vec![] };
            let object_state = if entry == 12 { object_state } else { 0 };
            C14Case { entry, n, prefix, unchecked_prefix, list_before, object_state }
        })
        .boxed()
}

#[derive(Clone, Copy, Debug, PartialEq)]
pub enum Expect {
    Panic,
    Err,
    Ok,
}

const FORBIDDEN: [c_int; 5] = [libc::SIGKILL, libc::SIGSTOP, libc::SIGILL, libc::SIGFPE, libc::SIGSEGV];

/// Does the OS (glibc sigaction on Linux) accept installing a handler for n?
fn os_accepts(n: i32) -> bool {
    (1..=64).contains(&n) && n != 32 && n != 33 && n != libc::SIGKILL && n != libc::SIGSTOP
}

/// Signals that have a name on this platform (independent list from the headers).
pub fn named(n: i32) -> bool {
    [
        libc::SIGABRT, libc::SIGALRM, libc::SIGBUS, libc::SIGCHLD, libc::SIGCONT, libc::SIGFPE, libc::SIGHUP, libc::SIGILL,
        libc::SIGINT, libc::SIGIO, libc::SIGKILL, libc::SIGPIPE, libc::SIGPROF, libc::SIGQUIT, libc::SIGSEGV, libc::SIGSTOP,
        libc::SIGSYS, libc::SIGTERM, libc::SIGTRAP, libc::SIGTSTP, libc::SIGTTIN, libc::SIGTTOU, libc::SIGURG, libc::SIGUSR1,
        libc::SIGUSR2, libc::SIGVTALRM, libc::SIGWINCH, libc::SIGXCPU, libc::SIGXFSZ,
    ]
    .contains(&n)
}

/// The independent expectation table.
pub fn expect(entry: u8, n: i32) -> Expect {
    let forb = FORBIDDEN.contains(&n);
    match entry {
        0..=5 | 7 | 8 => {
            if forb {
                Expect::Panic
            } else if os_accepts(n) {
                Expect::Ok
            } else {
                Expect::Err
            }
        }
        6 => {
            if !named(n) {
                Expect::Err
            } else if forb {
                Expect::Panic
            } else {
                Expect::Ok
            }
        }
        9..=13 => {
            if n < 0 || n >= 128 || forb {
                Expect::Panic
            } else if os_accepts(n) {
                Expect::Ok
            } else {
                Expect::Err
            }
        }
        _ => {
            // unchecked: the OS's verdict passes through
            if os_accepts(n) || n == libc::SIGILL || n == libc::SIGFPE || n == libc::SIGSEGV {
                Expect::Ok
            } else {
                Expect::Err
            }
        }
    }
}

static COUNTS: [AtomicUsize; 8] = [const { AtomicUsize::new(0) }; 8];

fn outcome_of<T>(r: std::thread::Result<Result<T, std::io::Error>>) -> (String, Option<T>) {
    match r {
        Ok(Ok(v)) => ("ok".into(), Some(v)),
        Ok(Err(e)) => (format!("err:{}", e.raw_os_error().unwrap_or(-1)), None),
        Err(_) => ("panic".into(), None),
    }
}

/// Child: run the case, streaming observations.
fn child(case: &C14Case, fd: i32) {
    crate::vsched::install();
    ignore_sigpipe(); // quiet panic hook; hooks pass through (no virtual threads)
    let mut prefix_sigs: Vec<c_int> = Vec::new();
    for (i, p) in case.prefix.iter().enumerate() {
        let s = SAFE[*p as usize % SAFE.len()];
        prefix_sigs.push(s);
        let r = unsafe { signal_hook_registry::register(s, move || { COUNTS[i].fetch_add(1, Ordering::SeqCst); }) };
        if r.is_err() {
            emit(fd, &json!({"k": "infra", "what": "prefix registration failed"}));
            return;
        }
    }
    for u in &case.unchecked_prefix {
        let s = [libc::SIGILL, libc::SIGFPE, libc::SIGSEGV][*u as usize % 3];
        let r = unsafe { signal_hook_registry::register_signal_unchecked(s, || ()) };
        if r.is_err() {
            emit(fd, &json!({"k": "infra", "what": "unchecked prefix registration failed"}));
            return;
        }
    }
    // an iterator instance for entry 12, created before the snapshot
    let mut existing = if case.entry == 12 { Some(Signals::new(&[libc::SIGWINCH]).expect("Signals::new")) } else { None };
    let mut outliving_handle: Option<signal_hook::iterator::Handle> = None;
    if let Some(ex) = existing.as_ref() {
        match case.object_state % 3 {
            1 => ex.handle().close(),
            2 => outliving_handle = Some(ex.handle()),
            _ => {}
        }
    }
    if outliving_handle.is_some() {
        existing = None;
    }
    let d0 = dispositions();
    let f0 = open_fd_count();
    let flag = Arc::new(AtomicBool::new(false));
    let uflag = Arc::new(AtomicUsize::new(0));
    let n = case.n;
    let mut list: Vec<c_int> = case.list_before.iter().map(|i| SAFE[*i as usize % SAFE.len()]).collect();
    list.push(n);
    let list = list;
    let mut handed_fds: Vec<i32> = Vec::new();
    let mut keep: Vec<Box<dyn std::any::Any>> = Vec::new();
    let mut raw_keep: Vec<i32> = Vec::new();
    emit(fd, &json!({"k": "calling", "entry": ENTRIES[case.entry as usize], "n": n}));
    let out: String = {
        let flag2 = flag.clone();
        let uflag2 = uflag.clone();
        match case.entry {
            0 | 2 => {
                let f = flag2;
                outcome_of(std::panic::catch_unwind(std::panic::AssertUnwindSafe(|| unsafe {
                    if case.entry == 0 {
                        signal_hook_registry::register(n, move || f.store(true, Ordering::SeqCst))
                    } else {
                        signal_hook::low_level::register(n, move || f.store(true, Ordering::SeqCst))
                    }
                }))).0
            }
            1 => {
                let f = flag2;
                outcome_of(std::panic::catch_unwind(std::panic::AssertUnwindSafe(|| unsafe {
                    signal_hook_registry::register_sigaction(n, move |_| f.store(true, Ordering::SeqCst))
                }))).0
            }
            3 => outcome_of(std::panic::catch_unwind(std::panic::AssertUnwindSafe(|| signal_hook::flag::register(n, flag2)))).0,
            4 => outcome_of(std::panic::catch_unwind(std::panic::AssertUnwindSafe(|| signal_hook::flag::register_usize(n, uflag2, 7)))).0,
            5 => outcome_of(std::panic::catch_unwind(std::panic::AssertUnwindSafe(|| signal_hook::flag::register_conditional_shutdown(n, 3, flag2)))).0,
            6 => outcome_of(std::panic::catch_unwind(std::panic::AssertUnwindSafe(|| signal_hook::flag::register_conditional_default(n, flag2)))).0,
            7 => {
                let (r, w) = UnixStream::pair().expect("pair");
                handed_fds.push(w.as_raw_fd());
                keep.push(Box::new(r));
                outcome_of(std::panic::catch_unwind(std::panic::AssertUnwindSafe(|| signal_hook::low_level::pipe::register(n, w)))).0
            }
            8 => {
                let mut p = [0i32; 2];
                unsafe { libc::pipe(p.as_mut_ptr()) };
                handed_fds.push(p[1]);
                let rd = p[0];
                // the read end stays open until the end of the case (a write to a reader-less
                // pipe would raise SIGPIPE, which is the harness's doing, not the library's)
                raw_keep.push(rd);
                outcome_of(std::panic::catch_unwind(|| signal_hook::low_level::pipe::register_raw(n, p[1]))).0
            }
            9 => {
                let (o, v) = outcome_of(std::panic::catch_unwind(|| Signals::new(&list)));
                if let Some(v) = v { keep.push(Box::new(v)); }
                o
            }
            10 => {
                let (o, v) = outcome_of(std::panic::catch_unwind(|| SignalsInfo::<WithRawSiginfo>::new(&list)));
                if let Some(v) = v { keep.push(Box::new(v)); }
                o
            }
            11 => {
                let (o, v) = outcome_of(std::panic::catch_unwind(|| SignalsInfo::<WithOrigin>::new(&list)));
                if let Some(v) = v { keep.push(Box::new(v)); }
                o
            }
            12 => {
                let h = match outliving_handle.as_ref() {
                    Some(h) => h.clone(),
                    None => existing.as_ref().unwrap().handle(),
                };
                outcome_of(std::panic::catch_unwind(std::panic::AssertUnwindSafe(|| h.add_signal(n)))).0
            }
            13 => {
                let (r, w) = UnixStream::pair().expect("pair");
                handed_fds.push(r.as_raw_fd());
                handed_fds.push(w.as_raw_fd());
                let (o, v) = outcome_of(std::panic::catch_unwind(std::panic::AssertUnwindSafe(|| {
                    signal_hook::iterator::backend::SignalDelivery::with_pipe(r, w, signal_hook::iterator::exfiltrator::SignalOnly::default(), &list)
                })));
                if let Some(v) = v { keep.push(Box::new(v)); }
                o
            }
            14 => {
                let f = flag2;
                outcome_of(std::panic::catch_unwind(std::panic::AssertUnwindSafe(|| unsafe {
                    signal_hook_registry::register_signal_unchecked(n, move || f.store(true, Ordering::SeqCst))
                }))).0
            }
            _ => {
                let f = flag2;
                outcome_of(std::panic::catch_unwind(std::panic::AssertUnwindSafe(|| unsafe {
                    signal_hook_registry::register_unchecked(n, move |_| f.store(true, Ordering::SeqCst))
                }))).0
            }
        }
    };
    let rejected = out != "ok";
    let d1 = dispositions();
    let mut changed: Vec<usize> = Vec::new();
    for i in 0..64 {
        // valid signals listed before the refused one are taken over before the refusal and the
        // library never hands a signal back: not "changed by the refusal"
        if d0[i] != d1[i] && !list[..list.len() - 1].contains(&((i + 1) as c_int)) {
            changed.push(i + 1);
        }
    }
    let arc_counts = (Arc::strong_count(&flag), Arc::strong_count(&uflag));
    let fds_open: Vec<i32> = handed_fds.iter().cloned().filter(|f| fd_valid(*f)).collect();
    let _ = rejected;
    let f1 = open_fd_count();
    emit(fd, &json!({"k": "outcome", "out": out, "changed": changed, "arc": [arc_counts.0, arc_counts.1], "handed_open": fds_open, "fd0": f0, "fd1": f1, "panic": crate::vsched::take_last_panic()}));
    // previously registered actions still fire exactly once
    let mut fired: Vec<usize> = Vec::new();
    for (i, s) in prefix_sigs.iter().enumerate() {
        // several prefix entries may share a signal: raise each distinct signal once
        if prefix_sigs[..i].contains(s) {
            continue;
        }
        unsafe { libc::raise(*s) };
    }
    for i in 0..prefix_sigs.len() {
        fired.push(COUNTS[i].load(Ordering::SeqCst));
    }
    emit(fd, &json!({"k": "prefix", "fired": fired}));
    // the library stays usable
    let after_flag = Arc::new(AtomicBool::new(false));
    let r = std::panic::catch_unwind(std::panic::AssertUnwindSafe(|| signal_hook::flag::register(libc::SIGUSR1, after_flag.clone())));
    let reg_ok = matches!(r, Ok(Ok(_)));
    unsafe { libc::raise(libc::SIGUSR1) };
    let flag_set = after_flag.load(Ordering::SeqCst);
    // iterator front-end stays usable; for entry 12 the very same instance
    let it_ok = std::panic::catch_unwind(std::panic::AssertUnwindSafe(|| match existing.as_ref() {
        Some(ex) => {
            let ok = ex.handle().add_signal(libc::SIGUSR2).is_ok();
            unsafe { libc::raise(libc::SIGUSR2) };
            ok
        }
        None => {
            let mut s = match Signals::new(&[libc::SIGUSR2]) {
                Ok(s) => s,
                Err(_) => return false,
            };
            unsafe { libc::raise(libc::SIGUSR2) };
            let got: Vec<c_int> = s.pending().collect();
            got.contains(&libc::SIGUSR2)
        }
    }));
    let it_ok = matches!(it_ok, Ok(true));
    let mut same_instance_ok = true;
    if let Some(mut ex) = existing {
        let r = std::panic::catch_unwind(std::panic::AssertUnwindSafe(|| {
            let got: Vec<c_int> = ex.pending().collect();
            got.contains(&libc::SIGUSR2)
        }));
        same_instance_ok = matches!(r, Ok(true));
        let r2 = std::panic::catch_unwind(std::panic::AssertUnwindSafe(move || drop(ex)));
        if r2.is_err() {
            same_instance_ok = false;
        }
    }
    emit(fd, &json!({"k": "after", "reg_ok": reg_ok, "flag_set": flag_set, "iter_ok": it_ok, "same_instance_ok": same_instance_ok, "panic": crate::vsched::take_last_panic()}));
    drop(keep);
    for f in raw_keep {
        unsafe { libc::close(f) };
    }
    emit(fd, &json!({"k": "done"}));
}

pub fn run_case(case: &C14Case) -> CaseReport {
    let c2 = case.clone();
    let (recs, end) = fork_stream(20_000, move |fd| child(&c2, fd));
    let mut rep = CaseReport::default();
    let entry = ENTRIES[case.entry as usize % 16];
    let exp = expect(case.entry % 16, case.n);
    let find = |k: &str| recs.iter().find(|r| r["k"] == k);
    rep.hash = hash_of(&(case.entry, case.n, &case.prefix, &case.unchecked_prefix, &case.list_before, case.object_state));
    if !case.list_before.is_empty() {
        rep.class("constructor-list-with-valid-prefix");
    }
    if !case.unchecked_prefix.is_empty() {
        rep.class("after-unchecked-registration");
    }
    rep.nontrivial = exp != Expect::Ok && case.entry < 14 && (!case.prefix.is_empty() || !case.unchecked_prefix.is_empty() || !case.list_before.is_empty());
    rep.class(match exp {
        Expect::Panic => "expect-panic",
        Expect::Err => "expect-err",
        Expect::Ok => "expect-ok",
    });
    if case.object_state % 3 != 0 {
        rep.class(if case.object_state % 3 == 1 { "handle-of-a-closed-instance" } else { "handle-that-outlived-its-instance" });
    }
    if case.entry >= 14 {
        rep.class("unchecked-entry");
    }
    rep.sample = Some(json!({"entry": entry, "n": case.n, "prefix": case.prefix, "expected": format!("{:?}", exp), "records": recs, "end": format!("{:?}", end)}));
    if find("infra").is_some() {
        rep.inconclusive = Some("prefix registration failed".into());
        return rep;
    }
    match &end {
        End::Timeout => {
            rep.inconclusive = Some("child timed out".into());
            return rep;
        }
        End::Infra(e) => {
            rep.inconclusive = Some(e.clone());
            return rep;
        }
        End::Signaled(s) => {
            rep.viol(
                &format!("C14/abort/{}", entry),
                format!("{}({}) killed the process with signal {} instead of an ordinary panic/error", entry, case.n, s),
            );
            return rep;
        }
        End::Exited(c) if *c != 0 || find("done").is_none() => {
            rep.viol(&format!("C14/abort/{}", entry), format!("{}({}): process exited with {} before finishing", entry, case.n, c));
            return rep;
        }
        _ => {}
    }
    let out = find("outcome").unwrap();
    let got = out["out"].as_str().unwrap_or("");
    let got_class = if got == "ok" {
        Expect::Ok
    } else if got == "panic" {
        Expect::Panic
    } else {
        Expect::Err
    };
    if got_class != exp {
        rep.viol(
            &format!("C14/outcome/{}", entry),
            format!("{}({}) -> {} but expected {:?} (panic message: {})", entry, case.n, got, exp, out["panic"]),
        );
    }
    if got_class != Expect::Ok {
        if !out["changed"].as_array().map_or(true, |a| a.is_empty()) {
            rep.viol("C14/disposition-changed", format!("{}({}) was refused but dispositions of {} changed", entry, case.n, out["changed"]));
        }
        let arc = &out["arc"];
        if arc[0].as_u64() != Some(1) || arc[1].as_u64() != Some(1) {
            rep.viol("C14/leak", format!("{}({}) was refused but the flag it captured is still referenced (counts {})", entry, case.n, arc));
        }
        if !out["handed_open"].as_array().map_or(true, |a| a.is_empty()) {
            rep.viol("C14/leak", format!("{}({}) was refused but descriptor(s) {} handed over are still open", entry, case.n, out["handed_open"]));
        }
        if case.entry != 12 && out["fd0"].as_u64().unwrap_or(0) + if case.entry == 7 || case.entry == 8 { 1 } else { 0 } < out["fd1"].as_u64().unwrap_or(0) {
            rep.viol("C14/leak", format!("{}({}) was refused but {} descriptors are open (before: {})", entry, case.n, out["fd1"], out["fd0"]));
        }
    }
    if let Some(p) = find("prefix") {
        let fired: Vec<u64> = p["fired"].as_array().map(|a| a.iter().map(|x| x.as_u64().unwrap_or(99)).collect()).unwrap_or_default();
        if fired.iter().any(|f| *f != 1) {
            rep.viol("C14/registry-disturbed", format!("after {}({}) previously registered actions fired {:?} times (expected once each)", entry, case.n, fired));
        }
    }
    if let Some(a) = find("after") {
        if a["reg_ok"] != true || a["flag_set"] != true {
            rep.viol("C14/unusable", format!("after {}({}) a valid flag registration no longer works: {}", entry, case.n, a));
        }
        if a["iter_ok"] != true || a["same_instance_ok"] != true {
            rep.viol("C14/unusable-iterator", format!("after {}({}) the iterator front-end no longer works: {}", entry, case.n, a));
        }
    }
    rep
}

fn worker(def: &PropDef, args: &WorkerArgs) -> WorkerReport {
    generic_worker(def, args, strategy(), &run_case)
}

/// Enumerate the whole entry x number table (split across workers by the generic machinery is
/// not possible for `extra`, so worker 0 does it; ~2300 children, a few seconds).
fn extra(def: &PropDef, args: &WorkerArgs, report: &mut WorkerReport) {
    let known = Known::load();
    // refused registrations whose action owns an unregister-on-drop guard (see reg.rs)
    for v in 0..4u8 {
        let rep = crate::reg::refused_reentrant_probe(v);
        if let Some(x) = report.absorb(def, &rep, &known) {
            report.violation = Some((x.key, x.msg, serde_json::json!({"refused_reentrant": v})));
            return;
        }
    }
    let prefixes: Vec<Vec<u8>> = if args.tier == Tier::Thorough { vec![vec![], vec![0], vec![0, 1, 2], vec![3, 3]] } else { vec![vec![1]] };
    let nums = if args.tier == Tier::Thorough {
        numbers()
    } else {
        vec![-2, -1, 0, 1, 4, 8, 9, 11, 19, 31, 32, 33, 34, 64, 65, 127, 128, 129, i32::MIN, i32::MAX]
    };
    for entry in 0..16u8 {
        for n in &nums {
            for p in &prefixes {
                let case = C14Case { entry, n: *n, prefix: p.clone(), unchecked_prefix: vec![], list_before: vec![], object_state: 0 };
                let rep = run_case(&case);
                if let Some(v) = report.absorb(def, &rep, &known) {
                    report.violation = Some((v.key, v.msg, serde_json::to_value(&case).unwrap()));
                    return;
                }
            }
        }
    }
    // Handle::add_signal on a closed instance and on a handle that outlived its instance
    for st in [1u8, 2] {
        for n in &nums {
            let case = C14Case { entry: 12, n: *n, prefix: vec![1], unchecked_prefix: vec![], list_before: vec![], object_state: st };
            let rep = run_case(&case);
            if let Some(v) = report.absorb(def, &rep, &known) {
                report.violation = Some((v.key, v.msg, serde_json::to_value(&case).unwrap()));
                return;
            }
        }
    }
    // every constructor x refused boundary numbers, listed after one or two valid signals
    for entry in [9u8, 10, 11, 13] {
        for n in [-1, 0, 4, 9, 19, 32, 65, 127, 128, 1 << 20] {
            for lb in [vec![1u8], vec![0, 3]] {
                let case = C14Case { entry, n, prefix: vec![], unchecked_prefix: vec![], list_before: lb, object_state: 0 };
                let rep = run_case(&case);
                if let Some(v) = report.absorb(def, &rep, &known) {
                    report.violation = Some((v.key, v.msg, serde_json::to_value(&case).unwrap()));
                    return;
                }
            }
        }
    }
    // every checked entry point x every forbidden-but-catchable signal after an unchecked
    // registration of that very signal
    for entry in 0..14u8 {
        for (k, n) in [libc::SIGILL, libc::SIGFPE, libc::SIGSEGV].iter().enumerate() {
            let case = C14Case { entry, n: *n, prefix: vec![0], unchecked_prefix: vec![k as u8], list_before: vec![], object_state: 0 };
            let rep = run_case(&case);
            if let Some(v) = report.absorb(def, &rep, &known) {
                report.violation = Some((v.key, v.msg, serde_json::to_value(&case).unwrap()));
                return;
            }
        }
    }
    report.exhaustive = true;
}

fn replay(v: &Value) -> CaseReport {
    if let Some(a) = v.get("refused_reentrant").and_then(|a| a.as_u64()) {
        return crate::reg::refused_reentrant_probe(a as u8);
    }
    let case: C14Case = serde_json::from_value(v.clone()).expect("case");
    run_case(&case)
}

pub static C14: PropDef = PropDef {
    id: "C14",
    prefixes: &["C14/"],
    rule: "forkprobe: entry point (16; Handle::add_signal also on a closed instance and on a handle that outlived its instance) x signal number ([-2,130] + extreme integers) x generated prefix of 0-4 valid registrations, one forked child per case; the entry x boundary-number table is enumerated completely by worker 0 (thorough: the full [-2,130] range with 4 prefixes), the rest is proptest-sampled. Oracle: independent expectation table (panic / error / ok), all 64 dispositions unchanged after a refusal, captured Arc counts back to 1, handed-over descriptors closed, earlier actions fire exactly once, a later valid registration and the iterator front-end still work, the child survives. Non-trivial = refused input on a checked entry point with >=1 prior registration; distinct = (entry, number, prefix)",
    assumptions: &[
        "the OS-acceptance table (1..=64 minus 32, 33, KILL, STOP) is glibc/Linux specific and written independently of the library",
        "real signals are raised only for signals the case itself registered (taken over) - anything else would kill the child by design",
    ],
    cases: (600, 40_000),
    shrink_iters: 200,
    worker,
    replay,
    extra: Some(extra),
};
