//! Small-scope family for C01 / C18: the bare half-lock (`verif::HalfLockProbe`) under generated
//! schedules, in-process (≈10x cheaper than a forked registry case; weak-memory choices on).

use crate::driver::*;
use crate::vsched::{self, Config, Exec, Item, Nested, Outcome, RunResult};
use proptest::collection::vec;
use proptest::prelude::*;
use serde::{Deserialize, Serialize};
use serde_json::{json, Value};
use signal_hook_registry::verif::HalfLockProbe;
use signal_hook_registry::verif_shim::{Event, Kind};
use std::collections::HashMap;
use std::sync::atomic::{AtomicU32, Ordering};
use std::sync::Arc;

#[derive(Clone, Debug, Serialize, Deserialize, PartialEq)]
pub enum POp {
    Read { lock: u8 },
    Store { lock: u8 },
    Update { lock: u8 },
    SoloRead { lock: u8 },
}

#[derive(Clone, Debug, Serialize, Deserialize)]
pub struct PNested {
    pub thread: usize,
    pub at: u32,
    pub lock: u8,
}

#[derive(Clone, Debug, Serialize, Deserialize)]
pub struct ProbeCase {
    pub locks: u8,
    pub threads: Vec<Vec<POp>>,
    pub nested: Vec<PNested>,
    pub schedule: Vec<u8>,
    pub weak: bool,
    #[serde(default)]
    pub script: Vec<(usize, u8, u32)>,
}

pub fn strategy() -> BoxedStrategy<ProbeCase> {
    let op = prop_oneof![
        6 => (0u8..2).prop_map(|lock| POp::Read { lock }),
        4 => (0u8..2).prop_map(|lock| POp::Store { lock }),
        2 => (0u8..2).prop_map(|lock| POp::Update { lock }),
        1 => (0u8..2).prop_map(|lock| POp::SoloRead { lock }),
    ];
    (
        1u8..3,
        vec(vec(op, 1..6), 2..6),
        vec((0usize..6, 1u32..50, 0u8..2), 0..4),
        schedule_strategy(160),
        prop::bool::weighted(0.8),
    )
        .prop_map(|(locks, threads, nested, schedule, weak)| {
            let n = threads.len();
            let nested = nested.into_iter().map(|(t, at, lock)| PNested { thread: t % n, at, lock }).collect();
            ProbeCase { locks, threads, nested, schedule, weak, script: vec![] }
        })
        .boxed()
}

pub const ROUNDS: u32 = 32;

/// sustained overlap on the bare lock: writer thread 0, readers 1 and 2 (see reg.rs / DESIGN C18 iii)
pub fn sustain_strategy() -> BoxedStrategy<ProbeCase> {
    (1usize..4, 1u32..6, any::<bool>(), 0u32..3, vec(any::<u8>(), 0..30))
        .prop_map(|(nstores, grant, swap, pre, schedule)| {
            let nd = (ROUNDS + 8) as usize;
            let threads = vec![vec![POp::Store { lock: 0 }; nstores], vec![POp::Read { lock: 0 }; nd], vec![POp::Read { lock: 0 }; nd]];
            let (r1, r2) = if swap { (2, 1) } else { (1, 2) };
            let mut script = vec![(r1, 1u8, 1u32), (0, 2, 1 + pre)];
            for k in 0..ROUNDS {
                script.push((r2, 1, if k == 0 { 1 } else { 2 }));
                script.push((r1, 1, 2));
                script.push((0, 2, grant));
            }
            ProbeCase { locks: 1, threads, nested: vec![], schedule, weak: true, script }
        })
        .boxed()
}

const NT: usize = 1024;
static DROPPED: [AtomicU32; NT] = [const { AtomicU32::new(0) }; NT];
static NEXT_TAG: AtomicU32 = AtomicU32::new(1);

pub struct Canary {
    tag: u32,
}

impl Canary {
    fn new() -> Canary {
        Canary { tag: NEXT_TAG.fetch_add(1, Ordering::SeqCst) }
    }
}

impl Drop for Canary {
    fn drop(&mut self) {
        DROPPED[self.tag as usize % NT].fetch_add(1, Ordering::SeqCst);
        vsched::mark("value-drop", self.tag as i64, 0);
    }
}

fn read_section(p: &HalfLockProbe<Canary>, lock: u8) {
    let c = vsched::call("read", lock as i64, 0);
    p.read(|v| {
        let tag = v.tag;
        vsched::mark("read-enter", tag as i64, lock as i64);
        for i in 0..3 {
            if tag as usize >= NT || DROPPED[tag as usize % NT].load(Ordering::SeqCst) != 0 {
                vsched::violate_and_abort("C01/dead-capture", format!("a read section observed value {} after it had been released", tag));
            }
            if i < 2 {
                vsched::body_point(tag as usize);
            }
        }
        vsched::mark("read-exit", tag as i64, lock as i64);
    });
    vsched::ret(c, 0);
}

pub fn execute(case: &ProbeCase) -> RunResult {
    for d in DROPPED.iter() {
        d.store(0, Ordering::SeqCst);
    }
    NEXT_TAG.store(1, Ordering::SeqCst);
    let n = case.threads.len();
    let cfg = Config {
        schedule: case.schedule.clone(),
        step_bound: 30_000,
        nested: case.nested.iter().enumerate().map(|(i, x)| Nested { thread: x.thread, at: x.at, id: i as u32, on: 0 }).collect(),
        weak: case.weak,
        log_ops: true,
        abort_unwind: true,
        script: case.script.clone(),
        abort_on_cell_race: true,
        stretch: 1,
        hold: None,
    };
    let exec = Exec::new(cfg, n);
    let locks: Arc<Vec<HalfLockProbe<Canary>>> = Arc::new((0..case.locks.max(1)).map(|_| HalfLockProbe::new(Canary::new())).collect());
    {
        let locks = locks.clone();
        let nested = case.nested.clone();
        exec.set_nested_fn(Arc::new(move |k: u32| {
            let x = &nested[k as usize];
            let l = x.lock as usize % locks.len();
            vsched::in_handler(|| read_section(&locks[l], l as u8));
        }));
    }
    let mut bodies: Vec<Box<dyn FnOnce() + Send>> = Vec::new();
    for ops in case.threads.iter() {
        let ops = ops.clone();
        let locks = locks.clone();
        bodies.push(Box::new(move || {
            for op in ops.iter() {
                match op {
                    POp::Read { lock } => {
                        let l = *lock as usize % locks.len();
                        vsched::in_handler(|| read_section(&locks[l], l as u8))
                    }
                    POp::SoloRead { lock } => {
                        let l = *lock as usize % locks.len();
                        vsched::solo(|| vsched::in_handler(|| read_section(&locks[l], l as u8)))
                    }
                    POp::Store { lock } => {
                        let l = *lock as usize % locks.len();
                        let v = Canary::new();
                        let c = vsched::call("store", l as i64, v.tag as i64);
                        locks[l].store(v);
                        vsched::ret(c, 0);
                    }
                    POp::Update { lock } => {
                        let l = *lock as usize % locks.len();
                        let c = vsched::call("update", l as i64, 0);
                        locks[l].update(|_old| Canary::new());
                        vsched::ret(c, 0);
                    }
                }
            }
        }));
    }
    exec.run(bodies);
    if exec.completed() {
        vsched::mark("teardown", 0, 0);
        match Arc::try_unwrap(locks) {
            Ok(l) => drop(l),
            Err(_) => {}
        }
    } else {
        // threads were unwound out of an aborted case; the locks may hold leaked read counts
        std::mem::forget(locks);
    }
    exec.finish()
}

pub fn analyse(case: &ProbeCase, res: &RunResult) -> CaseReport {
    let mut rep = CaseReport::default();
    let log = &res.log;
    for v in &res.violations {
        rep.viol(&v.key, v.msg.clone());
    }
    rep.aborted = res.outcome != Outcome::Completed;
    match &res.outcome {
        Outcome::Deadlock(b) => rep.viol("C18/deadlock", format!("no thread can run: {:?}", b)),
        Outcome::StepBound => rep.viol("C18/step-bound", "run did not finish within the step bound under fair completion".into()),
        _ => {}
    }
    // parse: stores with their publish/free events and drops
    struct St {
        tid: i32,
        call: usize,
        ret: Option<usize>,
        publish: Option<usize>,
    }
    let mut stores: Vec<St> = Vec::new();
    let mut open: HashMap<u32, usize> = HashMap::new();
    let mut cur: HashMap<i32, usize> = HashMap::new();
    let mut drops: Vec<(i64, usize, i32, u32)> = Vec::new();
    let mut sections: Vec<(usize, Option<usize>, i32)> = Vec::new();
    let mut open_sec: HashMap<(i32, usize), Vec<usize>> = HashMap::new();
    let mut teardown = usize::MAX;
    let mut spun = false;
    let mut blocked = false;
    for (i, r) in log.iter().enumerate() {
        match &r.item {
            Item::Call { id, name, .. } if *name == "store" || *name == "update" => {
                open.insert(*id, stores.len());
                cur.insert(r.tid, stores.len());
                stores.push(St { tid: r.tid, call: i, ret: None, publish: None });
            }
            Item::Ret { id, .. } => {
                if let Some(k) = open.remove(id) {
                    stores[k].ret = Some(i);
                    cur.remove(&r.tid);
                }
            }
            Item::Event { ev: Event::Publish, .. } => {
                if let Some(k) = cur.get(&r.tid) {
                    stores[*k].publish = Some(i);
                }
            }
            Item::Event { ev: Event::SectionOpen, a, .. } => {
                open_sec.entry((r.tid, *a)).or_default().push(sections.len());
                sections.push((i, None, r.tid));
            }
            Item::Event { ev: Event::SectionClose, a, .. } => {
                if let Some(k) = open_sec.get_mut(&(r.tid, *a)).and_then(|s| s.pop()) {
                    sections[k].1 = Some(i);
                }
            }
            Item::Mark { name, a, .. } if *name == "value-drop" => drops.push((*a, i, r.tid, r.depth)),
            Item::Mark { name, .. } if *name == "teardown" => teardown = i,
            Item::Point { kind, .. } if matches!(kind, Kind::Spin | Kind::Yield) => spun = true,
            Item::Blocked { what, .. } if *what == "mutex" => blocked = true,
            Item::Panic { msg } => rep.viol("C18/unexpected-panic", format!("thread {} panicked: {}", r.tid, msg)),
            _ => {}
        }
    }
    let completed = res.outcome == Outcome::Completed;
    if completed {
        // every completed store released exactly one old value, on its own thread, at depth 0,
        // between its publish and its return
        for s in &stores {
            let (p, r) = match (s.publish, s.ret) {
                (Some(p), Some(r)) => (p, r),
                _ => continue,
            };
            let mine: Vec<&(i64, usize, i32, u32)> = drops.iter().filter(|d| d.1 > s.call && d.1 < r && d.2 == s.tid).collect();
            if mine.len() != 1 {
                rep.viol("C01/drop-count", format!("a store released {} old values inside the call (expected exactly one)", mine.len()));
            } else {
                if mine[0].1 < p {
                    rep.viol("C01/drop-window", "the old value was released before the new one was published".into());
                }
                if mine[0].3 > 0 {
                    rep.viol("C01/dropped-in-handler", "the old value was released at handler depth > 0".into());
                }
            }
        }
        for d in &drops {
            if d.1 < teardown && !stores.iter().any(|s| s.tid == d.2 && d.1 > s.call && s.ret.map_or(true, |r| d.1 < r)) {
                rep.viol("C01/drop-window", format!("value {} was released outside any store call (thread {}, depth {})", d.0, d.2, d.3));
            }
        }
        for i in 0..NT {
            if DROPPED[i].load(Ordering::SeqCst) > 1 {
                rep.viol("C01/drop-count", format!("value {} released {} times", i, DROPPED[i].load(Ordering::SeqCst)));
            }
        }
    }
    // isolated reads
    for r in log.iter() {
        if let Item::SoloEnd { blocked: true, .. } = r.item {
            rep.viol("C03/op-kind=wait", "an isolated read section could not finish with every other thread frozen".into());
        }
    }
    // sustained overlap verdict
    let mut nt18 = spun || blocked;
    if !case.script.is_empty() {
        rep.class("sustained-overlap");
        let script_end = log.iter().position(|r| matches!(&r.item, Item::Mark { name, .. } if *name == "script-end"));
        let w_done = log.iter().position(|r| r.tid == 0 && matches!(r.item, Item::ThreadDone));
        if let Some(se) = script_end {
            if w_done.map_or(true, |w| w > se) {
                rep.viol(
                    "C18/no-progress-under-overlap",
                    format!("a writer was still waiting after {} rounds in which every overlapping read section finished", ROUNDS),
                );
            }
        }
        nt18 = nt18 || spun;
    }
    let mut nt01 = false;
    for s in &stores {
        if let Some(p) = s.publish {
            let r = s.ret.unwrap_or(usize::MAX);
            if sections.iter().any(|(o, c, _)| *o < p && c.unwrap_or(usize::MAX) > p && *o < r) {
                nt01 = true;
            }
        }
    }
    if nt01 {
        rep.class("section-open-across-publish");
    }
    if res.nested_run > 0 {
        rep.class("nested-read");
    }
    if spun {
        rep.class("barrier-spun");
    }
    if blocked {
        rep.class("writer-blocked-on-mutex");
    }
    if res.stale_reads > 0 {
        rep.class("stale-read");
    }
    rep.class("half-lock-probe");
    rep.count("steps", res.steps);
    rep.count("switches", res.switches);
    rep.count("stale_reads", res.stale_reads);
    rep.nontrivial_by = vec![("C01".into(), nt01 || res.nested_run > 0), ("C18".into(), nt18)];
    rep.nontrivial = nt01 || nt18;
    let shape: Vec<(i32, u8)> = log
        .iter()
        .filter_map(|r| match &r.item {
            Item::Call { .. } => Some((r.tid, 1)),
            Item::Ret { .. } => Some((r.tid, 2)),
            Item::Event { ev, .. } if matches!(ev, Event::Publish | Event::Free | Event::SectionOpen | Event::SectionClose) => Some((r.tid, 3 + *ev as u8)),
            _ => None,
        })
        .collect();
    rep.hash = hash_of(&shape);
    rep.sample = Some(render(case, res));
    rep
}

fn render(case: &ProbeCase, res: &RunResult) -> Value {
    let mut lines: Vec<String> = Vec::new();
    let mut names: HashMap<usize, usize> = HashMap::new();
    for r in res.log.iter() {
        let s = match &r.item {
            Item::Call { name, a, b, .. } => format!("call {}({},{})", name, a, b),
            Item::Ret { r: v, .. } => format!("ret -> {}", v),
            Item::Op { kind, addr, old, new, ok, stale, .. } => {
                let n = names.len();
                let a = *names.entry(*addr).or_insert(n);
                format!("{:?} @{} {:#x}->{:#x} ok={} stale={}", kind, a, old & 0xffff, new & 0xffff, ok, stale)
            }
            Item::Event { ev, a, .. } => {
                let n = names.len();
                let a = *names.entry(*a).or_insert(n);
                format!("event {:?} @{}", ev, a)
            }
            Item::Mark { name, a, b } => format!("{} {} {}", name, a, b),
            other => format!("{:?}", other),
        };
        lines.push(format!("{:>4} t{} d{} {}", r.step, r.tid, r.depth, s));
        if lines.len() > 400 {
            lines.push("...".into());
            break;
        }
    }
    json!({"probe": {"locks": case.locks, "threads": case.threads, "nested": case.nested}, "outcome": format!("{:?}", res.outcome), "steps": res.steps, "trace": lines})
}

pub fn run_case(case: &ProbeCase) -> CaseReport {
    let res = execute(case);
    let mut rep = analyse(case, &res);
    if rep.violations.is_empty() {
        if let Some(s) = rep.sample.as_mut() {
            if let Some(t) = s.get_mut("trace").and_then(|t| t.as_array_mut()) {
                t.truncate(60);
            }
        }
    }
    rep
}
