//! C01 / C02 / C03 / C04 / C18 — the registry under generated schedules, one forked child per case.

use crate::driver::*;
use crate::forkrun::{fork_case, ChildEnd};
use crate::vsched::{self, Config, Exec, Item, Nested, Outcome, RunResult};
use libc::{c_int, c_void, siginfo_t};
use proptest::collection::vec;
use proptest::prelude::*;
use serde::{Deserialize, Serialize};
use serde_json::{json, Value};
use signal_hook_registry::verif_shim::{Event, Kind};
use signal_hook_registry::{self as registry, SigId};
use std::cell::RefCell;
use std::collections::{BTreeMap, HashMap};
use std::sync::atomic::{AtomicU32, Ordering};
use std::sync::{Arc, Mutex};

pub const SIGS: [c_int; 3] = [libc::SIGUSR1, libc::SIGUSR2, libc::SIGURG];

#[derive(Clone, Debug, Serialize, Deserialize, PartialEq, Eq, Hash)]
pub enum ROp {
    Reg { sig: u8, siginfo: bool, panic_drop: bool },
    Unreg { k: u8 },
    UnregShared { k: u8 },
    UnregSignal { sig: u8 },
    Deliver { sig: u8, solo: bool },
    RegForbidden,
    /// a registration the OS refuses (returns Err, no panic): 0 invalid number, 1 unchecked SIGKILL
    RegFails { variant: u8 },
    /// third-party code installs its own handler with plain sigaction (only has an effect while
    /// the library has not taken the signal over): variant 0/1 plain A/B, 2/3 siginfo A/B
    ForeignSigaction { sig: u8, variant: u8 },
}

#[derive(Clone, Debug, Serialize, Deserialize)]
pub struct RNested {
    pub thread: usize,
    pub at: u32,
    pub sig: u8,
    pub solo: bool,
}

#[derive(Clone, Debug, Serialize, Deserialize)]
pub struct RegCase {
    pub threads: Vec<Vec<ROp>>,
    pub nested: Vec<RNested>,
    /// prior disposition per signal: 0 default, 1 ignore, 2 plain handler, 3 siginfo handler
    pub priors: Vec<u8>,
    pub schedule: Vec<u8>,
    pub weak: bool,
    /// directed schedule prefix (C18 sustained-overlap family), see vsched::Config::script
    #[serde(default)]
    pub script: Vec<(usize, u8, u32)>,
}

#[derive(Clone, Copy, PartialEq)]
pub enum Focus {
    C01,
    C02,
    C03,
    C04,
    C18,
}

fn op_strategy(f: Focus) -> BoxedStrategy<ROp> {
    let (w_reg, w_unreg, w_unsig, w_del, w_forb, p_solo, p_panic): (u32, u32, u32, u32, u32, f64, f64) = match f {
        Focus::C01 => (6, 6, 2, 6, 0, 0.1, 0.0),
        Focus::C02 => (7, 5, 1, 8, 0, 0.05, 0.0),
        Focus::C03 => (5, 4, 1, 8, 0, 0.6, 0.0),
        Focus::C04 => (7, 2, 1, 8, 0, 0.1, 0.0),
        Focus::C18 => (7, 6, 2, 5, 2, 0.1, 0.08),
    };
    prop_oneof![
        w_reg => (0u8..3, any::<bool>(), prop::bool::weighted(p_panic)).prop_map(|(sig, siginfo, panic_drop)| ROp::Reg { sig, siginfo, panic_drop }),
        w_unreg => (0u8..8).prop_map(|k| ROp::Unreg { k }),
        w_unreg / 2 + 1 => (0u8..8).prop_map(|k| ROp::UnregShared { k }),
        w_unsig => (0u8..3).prop_map(|sig| ROp::UnregSignal { sig }),
        w_del => (0u8..3, prop::bool::weighted(p_solo)).prop_map(|(sig, solo)| ROp::Deliver { sig, solo }),
        w_forb + 0 => Just(ROp::RegForbidden),
        (if f == Focus::C04 || f == Focus::C18 { 2 } else { 0 }) => (0u8..2).prop_map(|variant| ROp::RegFails { variant }),
        (if f == Focus::C04 { 3 } else { 0 }) => (0u8..3, 0u8..4).prop_map(|(sig, variant)| ROp::ForeignSigaction { sig, variant }),
    ]
    .boxed()
}

pub fn strategy(f: Focus) -> BoxedStrategy<RegCase> {
    let base = match f {
        Focus::C04 => prop_oneof![1 => Just(0u8), 1 => Just(1u8), 3 => Just(2u8), 3 => Just(3u8)].boxed(),
        _ => prop_oneof![5 => Just(0u8), 1 => Just(1u8), 1 => Just(2u8), 1 => Just(3u8)].boxed(),
    };
    let prior = (base, prop_oneof![3 => Just(0u8), 2 => 1u8..6]).prop_map(|(b, fl)| b | (fl << 2)).boxed();
    let nsolo = if f == Focus::C03 { 0.6 } else { 0.15 };
    (
        vec(vec(op_strategy(f), 1..6), 2..6),
        vec((0usize..6, 1u32..70, 0u8..3, prop::bool::weighted(nsolo)), 0..4),
        vec(prior, 3),
        schedule_strategy(220),
        prop::bool::weighted(0.8),
    )
        .prop_map(|(mut threads, nested, priors, schedule, weak)| {
            // at most one panicking canary per case (a second one dropped during unwinding
            // would abort the process by Rust's own double-panic rule, not by the library)
            let mut seen = false;
            for t in threads.iter_mut() {
                for op in t.iter_mut() {
                    if let ROp::Reg { panic_drop, .. } = op {
                        if *panic_drop {
                            if seen {
                                *panic_drop = false;
                            }
                            seen = true;
                        }
                    }
                }
            }
            let n = threads.len();
            let nested = nested
                .into_iter()
                .map(|(t, at, sig, solo)| RNested { thread: t % n, at, sig, solo })
                .collect();
            RegCase { threads, nested, priors, schedule, weak, script: vec![] }
        })
        .boxed()
}

/// C18 (iii): a directed schedule family keeping at least one finite delivery in flight for
/// `ROUNDS` rounds while a mutator is inside its publish-and-wait phase.
pub const ROUNDS: u32 = 32;

pub fn sustain_strategy() -> BoxedStrategy<RegCase> {
    (
        // what the writer does (on another signal, so deliveries keep running exactly one action)
        vec(prop_oneof![Just(0u8), Just(1u8), Just(2u8)], 1..4),
        1u32..6,       // spins granted to the writer per round
        any::<bool>(), // which reader cycles first
        0u32..3,       // extra spins before the rounds start
        vec(any::<u8>(), 0..40),
    )
        .prop_map(|(wops, grant, swap, pre, schedule)| {
            let mut w: Vec<ROp> = Vec::new();
            for o in wops {
                w.push(match o {
                    0 => ROp::Reg { sig: 1, siginfo: false, panic_drop: false },
                    1 => ROp::Unreg { k: 0 },
                    _ => ROp::UnregSignal { sig: 1 },
                });
            }
            if !matches!(w[0], ROp::Reg { .. }) {
                w.insert(0, ROp::Reg { sig: 1, siginfo: false, panic_drop: false });
            }
            let nd = (ROUNDS + 8) as usize;
            let threads = vec![
                w,
                vec![ROp::Deliver { sig: 0, solo: false }; nd],
                vec![ROp::Deliver { sig: 0, solo: false }; nd],
                vec![ROp::Reg { sig: 0, siginfo: false, panic_drop: false }],
            ];
            let (r1, r2) = if swap { (2, 1) } else { (1, 2) };
            let mut script = vec![(3usize, 0u8, 0u32), (r1, 1, 1), (0, 2, 1 + pre)];
            for k in 0..ROUNDS {
                script.push((r2, 1, if k == 0 { 1 } else { 2 }));
                script.push((r1, 1, 2));
                script.push((0, 2, grant));
            }
            RegCase { threads, nested: vec![], priors: vec![0, 0, 0], schedule, weak: true, script }
        })
        .boxed()
}


// ------------------------------------------------------------------------------------------------
// child-side machinery

const NTAGS: usize = 256;
static ALIVE: [AtomicU32; NTAGS] = [const { AtomicU32::new(0) }; NTAGS];
static NEXT_DELIVERY: AtomicU32 = AtomicU32::new(1);
static SHARED_IDS: Mutex<Vec<(SigId, u32)>> = Mutex::new(Vec::new());

thread_local! {
    static DELIV_STACK: RefCell<Vec<(u32, c_int)>> = const { RefCell::new(Vec::new()) };
}

fn cur_delivery() -> i64 {
    DELIV_STACK.with(|s| s.borrow().last().map_or(-1, |x| x.0 as i64))
}

struct Canary {
    tag: u32,
    panic_drop: bool,
}

impl Drop for Canary {
    fn drop(&mut self) {
        let _h = crate::alloc::Harness::enter();
        vsched::mark("canary-drop", self.tag as i64, 0);
        ALIVE[self.tag as usize % NTAGS].fetch_add(1, Ordering::SeqCst);
        if self.panic_drop && !std::thread::panicking() {
            panic!("canary drop panic (generated)");
        }
    }
}

fn action_body(c: &Canary) {
    let d = cur_delivery();
    vsched::mark("act-enter", c.tag as i64, d);
    for i in 0..3 {
        if ALIVE[c.tag as usize % NTAGS].load(Ordering::SeqCst) != 0 {
            vsched::violate_and_abort(
                "C01/dead-capture",
                format!("action {} observed its capture already released (delivery {})", c.tag, d),
            );
        }
        if i < 2 {
            vsched::body_point(c.tag as usize);
        }
    }
    vsched::mark("act-exit", c.tag as i64, d);
}

extern "C" fn foreign1(sig: c_int) {
    vsched::mark("foreign1", sig as i64, cur_delivery());
}

extern "C" fn foreign3(sig: c_int, info: *mut siginfo_t, ctx: *mut c_void) {
    vsched::mark("foreign3", sig as i64, cur_delivery());
    vsched::mark("foreign3-args", info as usize as i64, ctx as usize as i64);
}

extern "C" fn foreign1b(sig: c_int) {
    vsched::mark("foreign1b", sig as i64, cur_delivery());
}

extern "C" fn foreign3b(sig: c_int, info: *mut siginfo_t, ctx: *mut c_void) {
    vsched::mark("foreign3b", sig as i64, cur_delivery());
    vsched::mark("foreign3-args", info as usize as i64, ctx as usize as i64);
}

const FOREIGN_NAMES: [&str; 4] = ["foreign1", "foreign1b", "foreign3", "foreign3b"];

fn foreign_sigaction(sig: c_int, variant: u8) {
    // atomic with respect to the schedule: no scheduling point in here
    unsafe {
        let mut cur: libc::sigaction = std::mem::zeroed();
        libc::sigaction(sig, std::ptr::null(), &mut cur);
        if cur.sa_sigaction == registry::verif::handler_addr() {
            vsched::mark("foreign-sigaction-skipped", sig as i64, variant as i64);
            return;
        }
        let mut sa: libc::sigaction = std::mem::zeroed();
        match variant % 4 {
            0 => sa.sa_sigaction = foreign1 as usize,
            1 => sa.sa_sigaction = foreign1b as usize,
            2 => {
                sa.sa_sigaction = foreign3 as usize;
                sa.sa_flags = libc::SA_SIGINFO;
            }
            _ => {
                sa.sa_sigaction = foreign3b as usize;
                sa.sa_flags = libc::SA_SIGINFO;
            }
        }
        libc::sigaction(sig, &sa, std::ptr::null_mut());
        vsched::mark("foreign-sigaction", sig as i64, (variant % 4) as i64);
    }
}

/// `kind & 3`: 0 default, 1 ignore, 2 plain handler, 3 siginfo handler. `(kind >> 2) & 7` picks
/// additional `sa_flags` the third party installed it with (the kernel stores and reports them
/// verbatim): 1..3 = other flag bits; 4 = `SA_SIGINFO` left set on a default/ignore disposition
/// (what C code gets when it "disables" a three-argument handler by overwriting only the handler
/// field of the struct it installed with); 5 = `SA_RESETHAND` on a handler (one-shot: the
/// simulated kernel resets the action to default on entry, as the real one does).
fn install_prior(sig: c_int, kind: u8) {
    unsafe {
        let mut sa: libc::sigaction = std::mem::zeroed();
        match kind & 3 {
            0 => sa.sa_sigaction = libc::SIG_DFL,
            1 => sa.sa_sigaction = libc::SIG_IGN,
            2 => sa.sa_sigaction = foreign1 as usize,
            _ => {
                sa.sa_sigaction = foreign3 as usize;
                sa.sa_flags = libc::SA_SIGINFO;
            }
        }
        sa.sa_flags |= match (kind >> 2) & 7 {
            1 => libc::SA_RESTART,
            2 => libc::SA_NODEFER | libc::SA_ONSTACK | libc::SA_RESTART,
            3 => libc::SA_NOCLDSTOP | libc::SA_NOCLDWAIT,
            4 if kind & 3 < 2 => libc::SA_SIGINFO,
            5 if kind & 3 >= 2 => libc::SA_RESETHAND,
            _ => 0,
        };
        if kind == 0 {
            return;
        }
        libc::sigaction(sig, &sa, std::ptr::null_mut());
    }
}

/// The simulated kernel: deliver `sig` to the calling (virtual) thread now.
/// The record a simulated kernel hands to the dispatcher: `si_signo`, `si_errno = 0`,
/// `si_code = SI_USER`, `si_pid` = unique delivery id (offset 16 on Linux x86-64 / aarch64),
/// `si_uid` and every remaining byte of the 128-byte structure a pattern derived from the id, so
/// that a record which is not a bytewise copy of exactly one delivery's information is recognisable.
pub fn fill_info(info: &mut siginfo_t, sig: c_int, id: i32) {
    let bytes = unsafe { std::slice::from_raw_parts_mut(info as *mut siginfo_t as *mut u8, std::mem::size_of::<siginfo_t>()) };
    for (i, b) in bytes.iter_mut().enumerate() {
        *b = if i < 28 { 0 } else { (id as u32).wrapping_mul(31).wrapping_add(i as u32 * 7) as u8 | 1 };
    }
    info.si_signo = sig;
    info.si_code = code_of(id);
    unsafe {
        // an anonymous sender (pid 0, uid 0: root outside the receiver's pid namespace) now and then
        let anon = anonymous(id);
        *((info as *mut siginfo_t as *mut i32).add(4)) = if anon { 0 } else { id };
        *((info as *mut siginfo_t as *mut u32).add(5)) = if anon { 0 } else { info_uid(id) };
        // the delivery id once more, where no decoder of sender information looks (si_value)
        *((info as *mut siginfo_t as *mut i32).add(6)) = id;
    }
}

pub fn anonymous(id: i32) -> bool {
    id.rem_euclid(13) == 6 && code_of(id) == libc::SI_USER
}

/// the delivery id a raw record carries (offset 24)
pub fn info_id(rec: &siginfo_t) -> i32 {
    unsafe { *((rec as *const siginfo_t as *const i32).add(6)) }
}

/// `si_code` of simulated delivery `id`: mostly SI_USER, some SI_QUEUE, and some small positive
/// codes - what fcntl(F_SETSIG) or rt_sigqueueinfo attach to arbitrary signals; numerically they
/// coincide with the CLD_* codes, which mean a child only for SIGCHLD.
pub fn code_of(id: i32) -> i32 {
    if id.rem_euclid(5) == 2 {
        1 + (id / 5).rem_euclid(6)
    } else if id.rem_euclid(11) == 7 {
        libc::SI_QUEUE
    } else {
        libc::SI_USER
    }
}

pub fn info_uid(id: i32) -> u32 {
    (id as u32).wrapping_mul(2654435761) >> 4
}

/// `None` if `rec` is the bytewise image of what `fill_info` builds for (its own signal, its own id).
pub fn info_mismatch(rec: &siginfo_t) -> Option<usize> {
    let id = info_id(rec);
    let mut want: siginfo_t = unsafe { std::mem::zeroed() };
    fill_info(&mut want, rec.si_signo, id);
    let n = std::mem::size_of::<siginfo_t>();
    let a = unsafe { std::slice::from_raw_parts(rec as *const siginfo_t as *const u8, n) };
    let b = unsafe { std::slice::from_raw_parts(&want as *const siginfo_t as *const u8, n) };
    (0..n).find(|i| a[*i] != b[*i])
}

pub fn sim_deliver(sig: c_int, solo: bool) {
    let blocked = DELIV_STACK.with(|s| s.borrow().iter().any(|x| x.1 == sig));
    if blocked {
        // the kernel keeps a signal blocked on the thread that is handling it
        vsched::mark("deliver-masked", sig as i64, 0);
        return;
    }
    let mut cur: libc::sigaction = unsafe { std::mem::zeroed() };
    unsafe { libc::sigaction(sig, std::ptr::null(), &mut cur) };
    let h = cur.sa_sigaction;
    let id = NEXT_DELIVERY.fetch_add(1, Ordering::SeqCst);
    let mut info: siginfo_t = unsafe { std::mem::zeroed() };
    info.si_signo = sig;
    info.si_code = libc::SI_USER;
    fill_info(&mut info, sig, id as i32);
    if cur.sa_flags & libc::SA_SIGINFO == 0 {
        // a handler installed without SA_SIGINFO gets no record from the kernel: whatever it finds
        // where a record would be is stale stack memory
        unsafe { std::ptr::write_bytes(&mut info as *mut siginfo_t as *mut u8, 0x5A, std::mem::size_of::<siginfo_t>()) };
    }
    let ctx = (0x5150_0000usize + id as usize) as *mut c_void;
    let target = if h == registry::verif::handler_addr() {
        1
    } else if h == libc::SIG_DFL || h == libc::SIG_IGN {
        0
    } else {
        2
    };
    if cur.sa_flags & libc::SA_RESETHAND != 0 && target != 0 {
        // what the kernel does on entry to a one-shot handler: the action goes back to default
        unsafe {
            let mut dfl = cur;
            dfl.sa_sigaction = libc::SIG_DFL;
            libc::sigaction(sig, &dfl, std::ptr::null_mut());
        }
        vsched::mark("deliver-resethand", sig as i64, target);
    }
    vsched::mark("deliver-start", id as i64, sig as i64);
    vsched::mark("deliver-args", &mut info as *mut siginfo_t as usize as i64, ctx as usize as i64);
    vsched::mark("deliver-target", id as i64, target);
    DELIV_STACK.with(|s| s.borrow_mut().push((id, sig)));
    let infop = &mut info as *mut siginfo_t;
    let go = || match target {
        1 => {
            let ((), allocs) = crate::alloc::in_delivery(|| {
                vsched::in_handler(|| unsafe { registry::verif::deliver(sig, infop, ctx) })
            });
            if allocs > 0 {
                vsched::violate(
                    "C03/alloc",
                    format!("{} heap operations by library code inside delivery {} of signal {}", allocs, id, sig),
                );
            }
        }
        2 => vsched::in_handler(|| unsafe {
            if cur.sa_flags & libc::SA_SIGINFO != 0 {
                let f: extern "C" fn(c_int, *mut siginfo_t, *mut c_void) = std::mem::transmute(h);
                f(sig, infop, ctx)
            } else {
                let f: extern "C" fn(c_int) = std::mem::transmute(h);
                f(sig)
            }
        }),
        _ => {}
    };
    if solo {
        vsched::solo(go)
    } else {
        go()
    }
    DELIV_STACK.with(|s| s.borrow_mut().pop());
    vsched::mark("deliver-end", id as i64, sig as i64);
}

fn tag_of(thread: usize, idx: usize) -> u32 {
    (thread as u32 + 1) * 16 + idx as u32
}

fn run_op(thread: usize, idx: usize, op: &ROp, my_ids: &mut Vec<(SigId, u32)>) {
    match op {
        ROp::Reg { sig, siginfo, panic_drop } => {
            let s = SIGS[*sig as usize % 3];
            let tag = tag_of(thread, idx);
            let c = vsched::call("register", s as i64, tag as i64);
            let canary = Canary { tag, panic_drop: *panic_drop };
            let r = std::panic::catch_unwind(std::panic::AssertUnwindSafe(|| unsafe {
                if *siginfo {
                    registry::register_sigaction(s, move |info: &siginfo_t| {
                        action_body(&canary);
                        vsched::mark("act-info", info as *const siginfo_t as usize as i64, tag as i64);
                    })
                } else {
                    registry::register(s, move || action_body(&canary))
                }
            }));
            match r {
                Ok(Ok(id)) => {
                    vsched::ret(c, 1);
                    my_ids.push((id, tag));
                    SHARED_IDS.lock().unwrap().push((id, tag));
                }
                Ok(Err(_)) => vsched::ret(c, 0),
                Err(_) => {
                    vsched::mark("op-panic", thread as i64, idx as i64);
                    vsched::ret(c, -2)
                }
            }
        }
        ROp::Unreg { k } | ROp::UnregShared { k } => {
            let pick = if matches!(op, ROp::Unreg { .. }) {
                if my_ids.is_empty() {
                    None
                } else {
                    Some(my_ids[*k as usize % my_ids.len()])
                }
            } else {
                let g = SHARED_IDS.lock().unwrap();
                if g.is_empty() {
                    None
                } else {
                    Some(g[*k as usize % g.len()])
                }
            };
            let (id, tag) = match pick {
                Some(x) => x,
                None => {
                    vsched::mark("noop", thread as i64, idx as i64);
                    return;
                }
            };
            let c = vsched::call("unregister", tag as i64, 0);
            let r = std::panic::catch_unwind(|| registry::unregister(id));
            match r {
                Ok(b) => vsched::ret(c, b as i64),
                Err(_) => {
                    vsched::mark("op-panic", thread as i64, idx as i64);
                    vsched::ret(c, -2)
                }
            }
        }
        ROp::UnregSignal { sig } => {
            let s = SIGS[*sig as usize % 3];
            let c = vsched::call("unregister_signal", s as i64, 0);
            #[allow(deprecated)]
            let r = std::panic::catch_unwind(|| registry::unregister_signal(s));
            match r {
                Ok(b) => vsched::ret(c, b as i64),
                Err(_) => {
                    vsched::mark("op-panic", thread as i64, idx as i64);
                    vsched::ret(c, -2)
                }
            }
        }
        ROp::Deliver { sig, solo } => sim_deliver(SIGS[*sig as usize % 3], *solo),
        ROp::ForeignSigaction { sig, variant } => foreign_sigaction(SIGS[*sig as usize % 3], *variant),
        ROp::RegFails { variant } => {
            let c = vsched::call("register-fails", *variant as i64, 0);
            let r = std::panic::catch_unwind(|| unsafe {
                if *variant % 2 == 0 {
                    registry::register(1000, || ())
                } else {
                    registry::register_signal_unchecked(libc::SIGKILL, || ())
                }
            });
            match r {
                Ok(Ok(_)) => vsched::ret(c, 1),
                Ok(Err(_)) => vsched::ret(c, 0),
                Err(_) => {
                    vsched::mark("op-panic", thread as i64, idx as i64);
                    vsched::ret(c, -2)
                }
            }
        }
        ROp::RegForbidden => {
            let c = vsched::call("register-forbidden", libc::SIGKILL as i64, 0);
            let r = std::panic::catch_unwind(|| unsafe { registry::register(libc::SIGKILL, || ()) });
            match r {
                Ok(_) => vsched::ret(c, 1),
                Err(_) => {
                    vsched::mark("expected-panic", thread as i64, idx as i64);
                    vsched::ret(c, -2)
                }
            }
        }
    }
}

/// Runs in the child.
pub fn execute(case: &RegCase) -> (RunResult, CaseReport) {
    for (i, p) in case.priors.iter().enumerate().take(3) {
        install_prior(SIGS[i], *p);
    }
    let n = case.threads.len();
    let cfg = Config {
        schedule: case.schedule.clone(),
        step_bound: 40_000,
        nested: case
            .nested
            .iter()
            .enumerate()
            .map(|(i, x)| Nested { thread: x.thread, at: x.at, id: i as u32, on: 0 })
            .collect(),
        weak: case.weak,
        log_ops: true,
        abort_unwind: false,
        script: case.script.clone(),
        abort_on_cell_race: true,
        stretch: 1,
        hold: None,
    };
    let exec = Exec::new(cfg, n);
    {
        let nested = case.nested.clone();
        exec.set_nested_fn(Arc::new(move |k: u32| {
            let x = &nested[k as usize];
            sim_deliver(SIGS[x.sig as usize % 3], x.solo);
        }));
    }
    let mut bodies: Vec<Box<dyn FnOnce() + Send>> = Vec::new();
    for (t, ops) in case.threads.iter().enumerate() {
        let ops = ops.clone();
        bodies.push(Box::new(move || {
            let mut my_ids = Vec::new();
            for (i, op) in ops.iter().enumerate() {
                run_op(t, i, op, &mut my_ids);
            }
        }));
    }
    exec.run(bodies);
    let res = exec.finish();
    let rep = analyse(case, &res);
    (res, rep)
}

// ------------------------------------------------------------------------------------------------
// analysis

#[derive(Debug, Clone)]
struct OpWin {
    name: &'static str,
    thread: i32,
    a: i64,
    b: i64,
    call: usize,
    ret: Option<usize>,
    result: i64,
    publishes: Vec<(usize, usize)>, // (pos, lock addr)
    panicked: bool,
}

#[derive(Debug, Clone)]
struct Del {
    id: i64,
    sig: i64,
    thread: i32,
    start: usize,
    end: Option<usize>,
    depth_in: u32,
    target: i64,
    info: i64,
    ctx: i64,
    runs: Vec<(i64, usize, Option<usize>)>,
    foreign: Vec<(usize, &'static str)>,
    foreign_args: Vec<(i64, i64)>,
    act_infos: Vec<i64>,
}

pub fn analyse(case: &RegCase, res: &RunResult) -> CaseReport {
    let mut rep = CaseReport::default();
    let log = &res.log;
    for v in &res.violations {
        rep.viol(&v.key, v.msg.clone());
    }
    // ---- parse
    let mut ops: Vec<OpWin> = Vec::new();
    let mut open_ops: HashMap<u32, usize> = HashMap::new();
    let mut cur_op: HashMap<i32, Vec<usize>> = HashMap::new(); // thread -> stack of op indices
    let mut dels: Vec<Del> = Vec::new();
    let mut open_del: HashMap<i32, Vec<usize>> = HashMap::new();
    let mut drops: Vec<(i64, usize, i32, u32)> = Vec::new();
    let mut sections: Vec<(usize, Option<usize>, usize, i32)> = Vec::new(); // open pos, close pos, ptr, tid
    let mut open_sec: HashMap<(i32, usize), Vec<usize>> = HashMap::new();
    let mut frees: Vec<(usize, usize)> = Vec::new();
    let mut installed: Vec<(usize, i64)> = Vec::new();
    let mut installed_tid: HashMap<i64, i32> = HashMap::new();
    let mut foreign_installs: Vec<(usize, i64, i64)> = Vec::new(); // (pos, sig, variant)
    let mut resethand_on_library: Vec<(usize, i64)> = Vec::new();
    let mut blocked_mutex = false;
    let mut spun = false;
    let mut unexpected_panics: Vec<String> = Vec::new();
    for (i, r) in log.iter().enumerate() {
        match &r.item {
            Item::Call { id, name, a, b } => {
                open_ops.insert(*id, ops.len());
                cur_op.entry(r.tid).or_default().push(ops.len());
                ops.push(OpWin { name, thread: r.tid, a: *a, b: *b, call: i, ret: None, result: 0, publishes: vec![], panicked: false });
            }
            Item::Ret { id, r: rv } => {
                if let Some(k) = open_ops.remove(id) {
                    ops[k].ret = Some(i);
                    ops[k].result = *rv;
                    if let Some(st) = cur_op.get_mut(&r.tid) {
                        st.retain(|x| *x != k);
                    }
                }
            }
            Item::Event { ev, a, b } => match ev {
                Event::Publish => {
                    if let Some(k) = cur_op.get(&r.tid).and_then(|s| s.last()) {
                        ops[*k].publishes.push((i, *b));
                    }
                }
                Event::SectionOpen => {
                    open_sec.entry((r.tid, *a)).or_default().push(sections.len());
                    sections.push((i, None, *a, r.tid));
                }
                Event::SectionClose => {
                    if let Some(k) = open_sec.get_mut(&(r.tid, *a)).and_then(|s| s.pop()) {
                        sections[k].1 = Some(i);
                    }
                }
                Event::Free => frees.push((i, *a)),
                Event::Installed => {
                    installed.push((i, *a as i64));
                    installed_tid.insert(*a as i64, r.tid);
                }
                _ => {}
            },
            Item::Mark { name, a, b } => match *name {
                "deliver-start" => {
                    open_del.entry(r.tid).or_default().push(dels.len());
                    dels.push(Del {
                        id: *a,
                        sig: *b,
                        thread: r.tid,
                        start: i,
                        end: None,
                        depth_in: r.depth + 1,
                        target: 0,
                        info: 0,
                        ctx: 0,
                        runs: vec![],
                        foreign: vec![],
                        foreign_args: vec![],
                        act_infos: vec![],
                    });
                }
                "deliver-args" => {
                    if let Some(k) = open_del.get(&r.tid).and_then(|s| s.last()) {
                        dels[*k].info = *a;
                        dels[*k].ctx = *b;
                    }
                }
                "deliver-target" => {
                    if let Some(k) = open_del.get(&r.tid).and_then(|s| s.last()) {
                        dels[*k].target = *b;
                    }
                }
                "deliver-end" => {
                    if let Some(k) = open_del.get_mut(&r.tid).and_then(|s| s.pop()) {
                        dels[k].end = Some(i);
                    }
                }
                "act-enter" => {
                    if let Some(d) = dels.iter_mut().find(|d| d.id == *b) {
                        d.runs.push((*a, i, None));
                    }
                }
                "act-exit" => {
                    if let Some(d) = dels.iter_mut().find(|d| d.id == *b) {
                        if let Some(x) = d.runs.iter_mut().rev().find(|x| x.0 == *a && x.2.is_none()) {
                            x.2 = Some(i);
                        }
                    }
                }
                "act-info" => {
                    if let Some(k) = open_del.get(&r.tid).and_then(|s| s.last()) {
                        dels[*k].act_infos.push(*a);
                    }
                }
                "foreign1" | "foreign3" | "foreign1b" | "foreign3b" => {
                    if let Some(d) = dels.iter_mut().find(|d| d.id == *b) {
                        d.foreign.push((i, FOREIGN_NAMES.iter().find(|n| **n == *name).cloned().unwrap_or("foreign1")));
                    }
                }
                "foreign-sigaction" => foreign_installs.push((i, *a, *b)),
                // the kernel reset a one-shot third-party handler to default (variant -1 = none)
                "deliver-resethand" if *b == 2 => foreign_installs.push((i, *a, -1)),
                "deliver-resethand" if *b == 1 => resethand_on_library.push((i, *a)),
                "foreign3-args" => {
                    if let Some(k) = open_del.get(&r.tid).and_then(|s| s.last()) {
                        dels[*k].foreign_args.push((*a, *b));
                    }
                }
                "canary-drop" => drops.push((*a, i, r.tid, r.depth)),
                "op-panic" => {
                    if let Some(k) = cur_op.get(&r.tid).and_then(|s| s.last()) {
                        ops[*k].panicked = true;
                    }
                }
                _ => {}
            },
            Item::Blocked { what, .. } if *what == "mutex" => blocked_mutex = true,
            Item::Point { kind, .. } if matches!(kind, Kind::Spin | Kind::Yield) => spun = true,
            Item::Panic { msg } => unexpected_panics.push(format!("thread {}: {}", r.tid, msg)),
            _ => {}
        }
    }
    let completed = res.outcome == Outcome::Completed;
    rep.aborted = !completed;

    // ---- C18: termination
    match &res.outcome {
        Outcome::Deadlock(b) => rep.viol("C18/deadlock", format!("no thread can run: {:?}", b)),
        Outcome::StepBound => rep.viol("C18/step-bound", "run did not finish within the step bound under fair completion".into()),
        _ => {}
    }
    for p in &unexpected_panics {
        rep.viol("C18/unexpected-panic", format!("uncaught panic: {}", p));
    }

    // ---- model reconstruction from data-lock publishes
    // Identify per op which publish is the data publish: the last one in the op window.
    struct Pub {
        pos: usize,
        op: usize,
    }
    let mut pubs: Vec<Pub> = Vec::new();
    let mut model_ok = true;
    for (k, o) in ops.iter().enumerate() {
        let success = match o.name {
            "register" => o.result == 1,
            "unregister" | "unregister_signal" => o.result == 1,
            _ => false,
        };
        let expected = match o.name {
            "register" => {
                if success {
                    if o.publishes.len() == 2 { 2 } else { 1 }
                } else {
                    o.publishes.len() // failed/panicked registration: anything goes
                }
            }
            "unregister" | "unregister_signal" => success as usize,
            _ => 0,
        };
        if o.ret.is_some() && !o.panicked && o.publishes.len() != expected {
            model_ok = false;
        }
        if success {
            if let Some((pos, _)) = o.publishes.last() {
                pubs.push(Pub { pos: *pos, op: k });
            } else {
                model_ok = false;
            }
        } else if o.panicked || o.ret.is_none() {
            // an op that panicked or never returned may still have published (e.g. panic in the
            // drop of the old snapshot happens after the publish)
            if let Some((pos, _)) = o.publishes.last() {
                if o.name == "unregister" || o.name == "unregister_signal" || (o.name == "register" && o.publishes.len() >= 1) {
                    pubs.push(Pub { pos: *pos, op: k });
                }
            }
        }
    }
    pubs.sort_by_key(|p| p.pos);
    // states[k] = state after k publishes: sig -> ordered tags
    let mut states: Vec<BTreeMap<i64, Vec<i64>>> = vec![BTreeMap::new()];
    let mut removed_by: HashMap<i64, usize> = HashMap::new(); // tag -> pub index
    let mut tag_sig: HashMap<i64, i64> = HashMap::new();
    for o in &ops {
        if o.name == "register" {
            tag_sig.insert(o.b, o.a);
        }
    }
    for (pi, p) in pubs.iter().enumerate() {
        let mut s = states.last().unwrap().clone();
        let o = &ops[p.op];
        match o.name {
            "register" => {
                // a register with one publish on a fresh signal could be the fallback publish only
                // (panicked before the data publish); treat conservatively
                if o.result == 1 {
                    s.entry(o.a).or_default().push(o.b);
                } else {
                    model_ok = false;
                }
            }
            "unregister" => {
                let tag = o.a;
                if let Some(sig) = tag_sig.get(&tag) {
                    if let Some(l) = s.get_mut(sig) {
                        if l.contains(&tag) {
                            l.retain(|x| *x != tag);
                            removed_by.insert(tag, pi);
                        } else {
                            model_ok = false;
                        }
                    }
                }
            }
            "unregister_signal" => {
                if let Some(l) = s.get_mut(&o.a) {
                    for t in l.drain(..) {
                        removed_by.insert(t, pi);
                    }
                }
            }
            _ => {}
        }
        states.push(s);
    }

    // ---- C01
    let removal_windows: Vec<(usize, usize)> = pubs
        .iter()
        .filter(|p| ops[p.op].name != "register")
        .map(|p| (p.pos, ops[p.op].ret.unwrap_or(usize::MAX)))
        .collect();
    if model_ok && completed {
        // (2) drops
        let mut drop_count: HashMap<i64, u32> = HashMap::new();
        for (tag, pos, tid, depth) in &drops {
            *drop_count.entry(*tag).or_insert(0) += 1;
            // registered successfully?
            let reg = ops.iter().find(|o| o.name == "register" && o.b == *tag);
            let registered = reg.map_or(false, |o| o.result == 1);
            if !registered {
                continue;
            }
            match removed_by.get(tag) {
                None => rep.viol("C01/drop-count", format!("capture of action {} was released although the action was never removed", tag)),
                Some(pi) => {
                    let o = &ops[pubs[*pi].op];
                    if *depth > 0 {
                        rep.viol("C01/dropped-in-handler", format!("capture of action {} released at handler depth {}", tag, depth));
                    }
                    if *tid != o.thread {
                        rep.viol("C01/dropped-by-other", format!("capture of action {} released by thread {} but removed by thread {}", tag, tid, o.thread));
                    }
                    if *pos < pubs[*pi].pos || o.ret.map_or(false, |r| *pos > r) {
                        rep.viol("C01/drop-window", format!("capture of action {} released outside the removing call", tag));
                    }
                }
            }
        }
        for (tag, pi) in &removed_by {
            let o = &ops[pubs[*pi].op];
            if o.ret.is_none() {
                continue;
            }
            let n = drop_count.get(tag).cloned().unwrap_or(0);
            if n != 1 {
                rep.viol("C01/drop-count", format!("capture of removed action {} released {} times by the time the removal returned", tag, n));
            }
            // (1) quiescence
            let r = o.ret.unwrap();
            for d in &dels {
                for (t, enter, exit) in &d.runs {
                    if t == tag {
                        if *enter > r {
                            rep.viol("C01/ran-after-removal", format!("action {} started after its removal returned", tag));
                        } else if exit.map_or(true, |e| e > r) {
                            rep.viol("C01/ran-after-removal", format!("action {} still running when its removal returned", tag));
                        }
                    }
                }
            }
        }
    }
    // C01 non-trivial: a read section overlapped a removal's [publish, ret] window, or a delivery
    // nested inside a removal op
    let mut nt01 = false;
    for (ps, pe) in &removal_windows {
        for (so, sc, _, _) in &sections {
            let sc = sc.unwrap_or(usize::MAX);
            if *so < *pe && sc > *ps && *so < *ps {
                nt01 = true;
            }
        }
    }
    for d in &dels {
        for o in &ops {
            if o.thread == d.thread && o.name.starts_with("unregister") && o.call < d.start && o.ret.map_or(true, |r| r > d.start) {
                nt01 = true;
                rep.class("delivery-nested-in-removal");
            }
        }
    }
    if nt01 {
        rep.class("section-overlaps-removal");
    }

    // ---- C02
    let mut nt02 = false;
    for d in dels.iter().filter(|d| d.target == 1 && d.end.is_some()) {
        let end = d.end.unwrap();
        let r: Vec<i64> = d.runs.iter().map(|x| x.0).collect();
        if r.len() >= 2 {
            nt02 = true;
        }
        // black-box form
        let mut seen = std::collections::BTreeSet::new();
        for t in &r {
            if !seen.insert(*t) {
                rep.viol("C02/duplicate", format!("action {} ran twice in delivery {}", t, d.id));
            }
            if tag_sig.get(t).map_or(true, |s| *s != d.sig) {
                rep.viol("C02/foreign-signal", format!("action {} of another signal ran in delivery {} of signal {}", t, d.id, d.sig));
            }
        }
        for o in ops.iter().filter(|o| o.name == "register" && o.a == d.sig) {
            let tag = o.b;
            let reg_done_before = o.result == 1 && o.ret.map_or(false, |x| x < d.start);
            // any op that could remove it and began before the delivery ended
            let removal_begun = ops.iter().any(|x| {
                ((x.name == "unregister" && x.a == tag) || (x.name == "unregister_signal" && x.a == d.sig)) && x.call < end
            });
            if reg_done_before && !removal_begun && !r.contains(&tag) {
                rep.viol("C02/missed", format!("action {} was registered before delivery {} began and not being removed, but did not run", tag, d.id));
            }
            if r.contains(&tag) && o.call > end {
                rep.viol("C02/early", format!("action {} ran in delivery {} before its registration started", tag, d.id));
            }
        }
        // definite order
        for i in 0..r.len() {
            for j in i + 1..r.len() {
                let (a, b) = (r[i], r[j]);
                let oa = ops.iter().find(|o| o.name == "register" && o.b == a);
                let ob = ops.iter().find(|o| o.name == "register" && o.b == b);
                if let (Some(oa), Some(ob)) = (oa, ob) {
                    if ob.ret.map_or(false, |x| x < oa.call) {
                        rep.viol("C02/order", format!("action {} ran before {} although {} was registered first", a, b, b));
                    }
                }
            }
        }
        // exact form
        if model_ok {
            let lo = pubs.iter().filter(|p| p.pos < d.start).count();
            let hi = pubs.iter().filter(|p| p.pos < end).count();
            if hi > lo {
                nt02 = true;
                rep.class("publish-during-delivery");
            }
            let empty: Vec<i64> = vec![];
            let ok = (lo..=hi).any(|k| states[k].get(&d.sig).unwrap_or(&empty) == &r);
            if !ok {
                rep.viol(
                    "C02/no-matching-state",
                    format!(
                        "delivery {} of signal {} ran {:?}; registry states current during it: {:?}",
                        d.id,
                        d.sig,
                        r,
                        (lo..=hi).map(|k| states[k].get(&d.sig).cloned().unwrap_or_default()).collect::<Vec<_>>()
                    ),
                );
                if hi == lo {
                    // no mutation was published during this delivery: the registry was in exactly
                    // one state of the simple model, and the delivery disagrees with it
                    rep.viol(
                        "C05/log-mismatch",
                        format!(
                            "delivery {} of signal {} ran {:?} while the registry was at rest in the model state {:?} (per-signal lists in registration order)",
                            d.id,
                            d.sig,
                            r,
                            states[lo].get(&d.sig).cloned().unwrap_or_default()
                        ),
                    );
                }
            }
        }
    }

    // ---- C02 (aborted runs): the executor stopped the case at a Free of a snapshot that a
    // delivery still has open. The mutator has finished waiting by then, so it returns while that
    // delivery goes on with the replaced state; if the mutation removed an action of the
    // delivery's signal that the delivery has not finished running, that action runs after its
    // removal returned.
    if res.violations.iter().any(|v| v.key == "C01/free-while-open") {
        if let Some((fpos, _)) = frees.last() {
            if let Some(ftid) = log.get(*fpos).map(|r| r.tid) {
                if let Some(opi) = cur_op.get(&ftid).and_then(|st| st.last()) {
                    let o = &ops[*opi];
                    if o.name == "unregister" || o.name == "unregister_signal" {
                        for d in dels.iter().filter(|d| d.target == 1 && d.end.is_none()) {
                            let removed: Vec<i64> = if o.name == "unregister" {
                                vec![o.a]
                            } else {
                                ops.iter().filter(|x| x.name == "register" && x.a == o.a && x.result == 1 && x.ret.map_or(false, |r| r < o.call)).map(|x| x.b).collect()
                            };
                            for t in removed {
                                if tag_sig.get(&t) == Some(&d.sig) && !d.runs.iter().any(|r| r.0 == t && r.2.is_some()) {
                                    // registered before the delivery began? then its snapshot has it
                                    let reg_before = ops.iter().any(|x| x.name == "register" && x.b == t && x.result == 1 && x.ret.map_or(false, |r| r < d.start));
                                    if reg_before {
                                        rep.viol("C02/runs-removed-state", format!("{}({}) stopped waiting and is about to return while delivery {} still runs the replaced registry state containing action {}", o.name, o.a, d.id, t));
                                    }
                                }
                            }
                        }
                    }
                }
            }
        }
    }

    // ---- C05 under concurrency: unregister(id) returns true exactly when the action is still
    // registered - the publish-ordered model says whether it was
    {
        let mut live: std::collections::BTreeSet<i64> = std::collections::BTreeSet::new();
        let mut consistent = true;
        for p in pubs.iter() {
            let o = &ops[p.op];
            match o.name {
                "register" if o.result == 1 => {
                    live.insert(o.b);
                }
                "unregister" => {
                    if o.result == 1 && !live.remove(&o.a) {
                        rep.viol("C05/ret@unregister", format!("unregister of action {} returned true although the action had already been removed (a concurrent removal was undone)", o.a));
                    }
                }
                "unregister_signal" => {
                    let gone: Vec<i64> = live.iter().cloned().filter(|t| tag_sig.get(t) == Some(&o.a)).collect();
                    for t in gone {
                        live.remove(&t);
                    }
                }
                _ => consistent = false,
            }
        }
        let _ = consistent;
        // ... and false only when it is not: a completed unregister(id) that returned false
        // although the action's registration had returned before it was called and nothing that
        // could have removed the action had even begun before it returned
        for o in ops.iter().filter(|o| o.name == "unregister" && o.ret.is_some() && o.result == 0 && !o.panicked) {
            let tag = o.a;
            let reg = ops.iter().find(|r| r.name == "register" && r.b == tag && r.result == 1);
            if let Some(rg) = reg {
                let registered_before = rg.ret.map_or(false, |x| x < o.call);
                let sig = rg.a;
                let rival = ops.iter().any(|x| !std::ptr::eq(x, o) && ((x.name == "unregister" && x.a == tag) || (x.name == "unregister_signal" && x.a == sig)) && x.call < o.ret.unwrap());
                if registered_before && !rival {
                    rep.viol("C05/ret@unregister", format!("unregister of action {} returned false although the action was registered and nobody else was removing it (it stays registered)", tag));
                    let oret = o.ret.unwrap();
                    if dels.iter().any(|d| d.start > oret && d.runs.iter().any(|(t, _, _)| *t == tag)) {
                        rep.viol("C01/ran-after-removal", format!("action {} ran in a delivery that began after its removal by id had returned (the call claimed the action was not registered and left it in place)", tag));
                    }
                }
            }
        }
        // actions that run although the model says they were removed before the delivery began
        if model_ok && completed {
            for d in dels.iter().filter(|d| d.target == 1) {
                for (t, enter, _) in &d.runs {
                    if let Some(pi) = removed_by.get(t) {
                        let o = &ops[pubs[*pi].op];
                        if o.ret.map_or(false, |r| r < d.start) && *enter > d.start {
                            rep.viol("C05/log-mismatch", format!("action {} ran in delivery {} although its removal had returned before the delivery began", t, d.id));
                        }
                    }
                }
            }
        }
    }

    // ---- C03
    let mut nt03 = false;
    for d in dels.iter().filter(|d| d.target == 1) {
        let end = d.end.unwrap_or(log.len());
        let mut steps = 0;
        for r in &log[d.start..end] {
            if r.tid != d.thread || r.depth != d.depth_in {
                continue;
            }
            match &r.item {
                Item::Op { .. } => steps += 1,
                Item::Lock { .. } | Item::TryLock { .. } => rep.viol("C03/op-kind=lock", format!("delivery {} took a lock", d.id)),
                Item::Blocked { what, .. } => rep.viol("C03/op-kind=blocked", format!("delivery {} blocked on {}", d.id, what)),
                Item::Point { kind, .. } if matches!(kind, Kind::Yield | Kind::Spin | Kind::BlockReadable) => {
                    rep.viol("C03/op-kind=wait", format!("delivery {} executed {:?}", d.id, kind))
                }
                Item::SoloEnd { blocked: true, .. } => {}
                _ => {}
            }
        }
        if steps > 12 {
            rep.viol("C03/steps", format!("delivery {} took {} atomic steps of its own", d.id, steps));
        }
        if d.end.is_none() && matches!(res.outcome, Outcome::StepBound | Outcome::Deadlock(_)) {
            rep.viol("C03/steps", format!("delivery {} never finished ({:?})", d.id, res.outcome));
        }
        for o in &ops {
            if o.call < d.start && o.ret.map_or(true, |r| r > d.start) && matches!(o.name, "register" | "unregister" | "unregister_signal") {
                nt03 = true;
            }
        }
    }
    for r in log.iter() {
        if let Item::SoloEnd { blocked: true, .. } = r.item {
            rep.viol("C03/op-kind=wait", "an isolated delivery could not finish with every other thread frozen".into());
        }
    }
    if res.violations.iter().any(|v| v.key == "vsched/self-deadlock") {
        rep.viol("C03/op-kind=lock", "a delivery waited for a lock held by the thread it interrupted".into());
    }

    // ---- C04
    let mut nt04 = false;
    // the disposition third-party code had in place for `sig` at log position `pos`:
    // None = default/ignore, Some(name) = a real handler
    let prior_at = |sig: i64, pos: usize| -> Option<&'static str> {
        let si = SIGS.iter().position(|s| *s as i64 == sig).unwrap_or(0);
        let mut cur: Option<&'static str> = match case.priors.get(si).cloned().unwrap_or(0) & 3 {
            2 => Some("foreign1"),
            3 => Some("foreign3"),
            _ => None,
        };
        for (p, s, v) in &foreign_installs {
            if *s == sig && *p < pos {
                cur = if *v < 0 { None } else { Some(FOREIGN_NAMES[*v as usize % 4]) };
            }
        }
        cur
    };
    for d in dels.iter().filter(|d| d.target == 1 && d.end.is_some()) {
        let ipos = match installed.iter().find(|(_, s)| *s == d.sig) {
            Some((p, _)) => *p,
            None => continue,
        };
        // the first registration of this signal: its call position and its data publish
        // the registration that performed the take-over: the one on whose thread the library's
        // handler was installed (others of the same signal may be queued behind the writer lock)
        let itid = installed_tid.get(&d.sig).cloned().unwrap_or(-9);
        let first_reg = ops.iter().filter(|o| o.name == "register" && o.a == d.sig && o.thread == itid && o.call < ipos && o.ret.map_or(true, |r| r > ipos)).last();
        let reg_call = first_reg.map_or(0, |o| o.call);
        let first_pub = pubs.iter().find(|p| ops[p.op].name == "register" && ops[p.op].a == d.sig).map(|p| p.pos).unwrap_or(usize::MAX);
        let at_takeover = prior_at(d.sig, ipos);
        let in_window = d.start < first_pub;
        // acceptable chained handlers: after the registration completed, exactly the disposition
        // in place when the library took over; inside the take-over window also whatever was in
        // place since the registration began (the documented transient race)
        let mut acceptable: Vec<Option<&'static str>> = vec![at_takeover];
        if in_window {
            acceptable.push(prior_at(d.sig, reg_call));
            for (p, s, v) in &foreign_installs {
                if *s == d.sig && *p > reg_call && *p < ipos {
                    acceptable.push(if *v < 0 { None } else { Some(FOREIGN_NAMES[*v as usize % 4]) });
                }
            }
        }
        let n = d.foreign.len();
        let called: Option<&'static str> = d.foreign.first().map(|f| f.1);
        if n > 1 {
            rep.viol("C04/foreign-calls=2", format!("pre-existing handler of signal {} called {} times in delivery {}", d.sig, n, d.id));
        } else if !acceptable.contains(&called) {
            match (called, at_takeover) {
                (None, Some(w)) => rep.viol("C04/foreign-calls=0", format!("pre-existing handler {} of signal {} called 0 times in delivery {}", w, d.sig, d.id)),
                (Some(c), None) => rep.viol("C04/foreign-calls=x", format!("handler {} was called for signal {} whose previous disposition was default/ignore", c, d.sig)),
                (Some(c), Some(w)) => {
                    let key = if c.starts_with("foreign1") != w.starts_with("foreign1") { "C04/args" } else { "C04/wrong-handler" };
                    rep.viol(key, format!("delivery {} of signal {} chained to {} but the handler in place when the library took the signal over was {}", d.id, d.sig, c, w))
                }
                (None, None) => {}
            }
        }
        if let Some(c) = called {
            if let Some(first) = d.runs.first() {
                if first.1 < d.foreign[0].0 {
                    rep.viol("C04/foreign-after-action", format!("action {} ran before the pre-existing handler in delivery {}", first.0, d.id));
                }
            }
            if c.starts_with("foreign3") && d.foreign_args.first().map_or(true, |a| a.0 != d.info || a.1 != d.ctx) {
                rep.viol("C04/args", format!("pre-existing siginfo handler got different info/context pointers in delivery {}", d.id));
            }
        }
        if at_takeover.is_some() {
            if d.start > ipos && d.start < first_pub {
                nt04 = true;
                rep.class("delivery-in-takeover-window");
            }
            for o in ops.iter().filter(|o| o.name == "register" && o.a != d.sig && o.publishes.len() == 2) {
                if o.call < d.start && o.ret.map_or(true, |r| r > d.start) {
                    nt04 = true;
                    rep.class("delivery-during-other-first-registration");
                }
            }
            if foreign_installs.iter().any(|(p, s, _)| *s == d.sig && *p > reg_call && *p < ipos) {
                nt04 = true;
                rep.class("third-party-sigaction-during-registration");
            }
        }
        for ai in &d.act_infos {
            if *ai != d.info {
                rep.viol("C04/args", format!("action received a different info pointer than the kernel passed in delivery {}", d.id));
            }
        }
    }
    for (_, sig) in &resethand_on_library {
        rep.viol("C04/library-handler-one-shot", format!("the library installed its own handler for signal {} as one-shot (SA_RESETHAND): after the first delivery the signal is back at its default action and neither the pre-existing handler nor any action runs again", sig));
        rep.viol("C05/disposition", format!("the library's handler for signal {} carries SA_RESETHAND: it does not stay the process's disposition", sig));
    }
    if case.priors.iter().any(|p| *p & 3 >= 2 && (*p >> 2) & 7 == 5) {
        rep.class("prior-one-shot-handler");
    }
    if case.priors.iter().any(|p| *p & 3 >= 2) && dels.iter().any(|d| d.target == 1) {
        rep.class("prior-handler-chained");
    }
    if case.priors.iter().any(|p| *p & 3 < 2 && (*p >> 2) & 7 == 4) && dels.iter().any(|d| d.target == 1) {
        rep.class("prior-default-or-ignore-with-siginfo-flag");
    }
    if case.priors.iter().any(|p| (*p >> 2) & 7 != 0 && (*p >> 2) & 7 != 4) {
        rep.class("prior-with-extra-flags");
    }

    // ---- C18 non-trivial
    let panicking_before_other = ops.iter().any(|o| (o.panicked || o.name == "register-forbidden") && ops.iter().any(|x| x.call > o.call && x.name != "register-forbidden"));
    let nt18 = blocked_mutex || spun || panicking_before_other;
    let nt18 = nt18;
    if blocked_mutex {
        rep.class("mutator-blocked-on-writer-mutex");
    }
    if spun {
        rep.class("barrier-spun");
    }
    // ops after which a mutex stays poisoned: later ops must still work (no unexpected op-panic)
    for o in &ops {
        if o.panicked {
            // expected only if a panic_drop canary was dropped inside it
            let expected = drops.iter().any(|(tag, pos, _, _)| {
                *pos > o.call && o.ret.map_or(true, |r| *pos < r) && is_panic_tag(case, *tag)
            });
            if !expected {
                rep.viol("C18/unexpected-panic", format!("{}({},{}) panicked", o.name, o.a, o.b));
            }
        }
    }

    // ---- C18 (iii): the writer must be done before the directed overlap ends
    let mut nt18 = nt18;
    if !case.script.is_empty() {
        rep.class("sustained-overlap");
        let script_end = log.iter().position(|r| matches!(&r.item, Item::Mark { name, .. } if *name == "script-end"));
        let w_done = log.iter().position(|r| r.tid == 0 && matches!(r.item, Item::ThreadDone));
        let w_spun = log.iter().any(|r| r.tid == 0 && matches!(&r.item, Item::Point { kind, .. } if matches!(kind, Kind::Spin | Kind::Yield)));
        if w_spun {
            nt18 = true;
        }
        if let Some(se) = script_end {
            if w_done.map_or(true, |w| w > se) {
                rep.viol(
                    "C18/no-progress-under-overlap",
                    format!("a mutator was still waiting after {} rounds in which every overlapping delivery finished (each round granted it several barrier iterations)", ROUNDS),
                );
            }
        }
    }
    if res.nested_run > 0 {
        rep.class("nested-delivery");
    }
    if res.stale_reads > 0 {
        rep.class("stale-read");
    }
    if log.iter().any(|r| matches!(r.item, Item::SoloStart)) {
        rep.class("solo-delivery");
    }
    if !model_ok {
        rep.class("model-not-reconstructible");
    }
    rep.count("steps", res.steps);
    rep.count("switches", res.switches);
    rep.count("stale_reads", res.stale_reads);
    rep.count("nested", res.nested_run as u64);
    rep.count("deliveries", dels.len() as u64);
    rep.nontrivial_by = vec![
        ("C01".into(), nt01),
        ("C02".into(), nt02),
        ("C03".into(), nt03),
        ("C04".into(), nt04),
        ("C18".into(), nt18),
        ("C05".into(), ops.iter().filter(|o| o.name.starts_with("unregister")).count() >= 2 && blocked_mutex),
    ];
    rep.nontrivial = nt01 || nt02 || nt03 || nt04 || nt18;
    let shape: Vec<(i32, u8, i64)> = log
        .iter()
        .filter_map(|r| match &r.item {
            Item::Call { name, .. } => Some((r.tid, 1, name.len() as i64)),
            Item::Ret { r: rv, .. } => Some((r.tid, 2, *rv)),
            Item::Mark { name, .. } if name.starts_with("deliver-") || name.starts_with("act-") => Some((r.tid, 3, name.len() as i64)),
            Item::Event { ev, .. } if matches!(ev, Event::Publish | Event::Free) => Some((r.tid, 4, 0)),
            _ => None,
        })
        .collect();
    rep.hash = hash_of(&(shape, &case.priors));
    rep.sample = Some(render(case, res));
    rep
}

fn is_panic_tag(case: &RegCase, tag: i64) -> bool {
    for (t, ops) in case.threads.iter().enumerate() {
        for (i, op) in ops.iter().enumerate() {
            if let ROp::Reg { panic_drop: true, .. } = op {
                if tag_of(t, i) as i64 == tag {
                    return true;
                }
            }
        }
    }
    false
}

fn render(case: &RegCase, res: &RunResult) -> Value {
    let mut lines: Vec<String> = Vec::new();
    let mut names: HashMap<usize, usize> = HashMap::new();
    for r in res.log.iter() {
        let s = match &r.item {
            Item::Call { name, a, b, .. } => format!("call {}({},{})", name, a, b),
            Item::Ret { r: v, .. } => format!("ret -> {}", v),
            Item::Op { kind, addr, old, new, ok, stale, .. } => {
                let n = names.len();
                let a = *names.entry(*addr).or_insert(n);
                format!("{:?} @{} {:#x}->{:#x} ok={} stale={}", kind, a, old & 0xffff, new & 0xffff, ok, stale)
            }
            Item::Event { ev, a, .. } => {
                let n = names.len();
                let a = *names.entry(*a).or_insert(n);
                format!("event {:?} @{}", ev, a)
            }
            Item::Mark { name, a, b } => {
                if name.ends_with("-args") || *name == "act-info" {
                    continue;
                }
                format!("{} {} {}", name, a, b)
            }
            Item::Lock { addr } | Item::Unlock { addr } => {
                let n = names.len();
                let a = *names.entry(*addr).or_insert(n);
                format!("{} @{}", if matches!(r.item, Item::Lock { .. }) { "lock" } else { "unlock" }, a)
            }
            other => format!("{:?}", other),
        };
        lines.push(format!("{:>4} t{} d{} {}", r.step, r.tid, r.depth, s));
        if lines.len() > 600 {
            lines.push("...".into());
            break;
        }
    }
    json!({
        "threads": case.threads,
        "priors": case.priors,
        "nested": case.nested,
        "outcome": format!("{:?}", res.outcome),
        "steps": res.steps,
        "switches": res.switches,
        "trace": lines,
    })
}

pub fn run_case(case: &RegCase) -> CaseReport {
    let case2 = case.clone();
    let end = fork_case(20_000, move || {
        crate::forkrun::install_segv_probe();
        let (_res, rep) = execute(&case2);
        serde_json::to_value(&rep).unwrap()
    });
    let mut rep = match end {
        ChildEnd::Report(v) => match serde_json::from_value::<CaseReport>(v) {
            Ok(r) => r,
            Err(e) => CaseReport { inconclusive: Some(format!("bad child report: {}", e)), ..Default::default() },
        },
        ChildEnd::Exited { code, .. } if code == crate::forkrun::EXIT_CALLED_DFL_IGN => {
            let mut r = CaseReport::default();
            r.viol("C04/called-default-or-ignore", "the process jumped to address 0 or 1: a default/ignore disposition was called as if it were a handler".into());
            r.viol("crash/sig=11", "the child running the case faulted (instruction pointer 0 or 1)".into());
            r.nontrivial = true;
            r.aborted = true;
            r.hash = hash_of(&format!("{:?}", case));
            r.sample = Some(json!({"threads": case.threads, "priors": case.priors, "child": "SIGSEGV with the instruction pointer at 0 or 1"}));
            r
        }
        ChildEnd::Signaled { sig, .. } => {
            let mut r = CaseReport::default();
            r.viol(&format!("crash/sig={}", sig), format!("the child running the case was killed by signal {}", sig));
            r.nontrivial = true;
            r.aborted = true;
            r.hash = hash_of(&format!("{:?}", case));
            r.sample = Some(json!({"threads": case.threads, "child": format!("killed by signal {}", sig)}));
            r
        }
        ChildEnd::Exited { code, partial } => CaseReport {
            inconclusive: Some(format!("child exited {} without a report: {}", code, &partial[..partial.len().min(200)])),
            ..Default::default()
        },
        ChildEnd::Timeout { .. } => CaseReport { inconclusive: Some("child timed out (watchdog)".into()), ..Default::default() },
        ChildEnd::Infra(e) => CaseReport { inconclusive: Some(e), ..Default::default() },
    };
    if rep.violations.is_empty() {
        if let Some(s) = rep.sample.as_mut() {
            if let Some(t) = s.get_mut("trace").and_then(|t| t.as_array_mut()) {
                t.truncate(80);
            }
        }
    }
    rep
}

/// C01 and C18 search two scopes: the whole registry (forked) and the bare half-lock (in-process).
#[derive(Clone, Debug, Serialize, Deserialize)]
pub enum RegOrProbe {
    Reg(RegCase),
    Probe(crate::probe::ProbeCase),
    /// removal by dropping the owning iterator instance while deliveries keep arriving
    Iter(crate::iter::IterCase),
    /// what a self-pipe action captured (its descriptor) while the reader has hung up: it must
    /// stay the action's until the removal (forkprobe of C13, real signals)
    Pipe(crate::c13::C13Case),
}

pub fn run_any(c: &RegOrProbe) -> CaseReport {
    match c {
        RegOrProbe::Reg(c) => run_case(c),
        RegOrProbe::Probe(c) => crate::probe::run_case(c),
        RegOrProbe::Iter(c) => crate::iter::run_case(c),
        RegOrProbe::Pipe(c) => {
            let mut r = crate::c13::run_probe(c);
            r.nontrivial_by.push(("C01".into(), c.reader_gone));
            r
        }
    }
}

fn replay(v: &Value) -> CaseReport {
    if let Some(a) = v.get("refused_reentrant").and_then(|a| a.as_u64()) {
        return refused_reentrant_probe(a as u8);
    }
    if let Some(a) = v.get("fork_then_use").and_then(|a| a.as_array()) {
        return fork_then_use_probe(a[0].as_u64().unwrap_or(0) as u8, a[1].as_u64().unwrap_or(1) as u8);
    }
    if let Some(a) = v.get("inflight_anchor").and_then(|a| a.as_array()) {
        return inflight_anchor(a[0].as_u64().unwrap_or(0) as u8, a[1].as_u64().unwrap_or(600));
    }
    if let Some(a) = v.get("anchor").and_then(|a| a.as_array()) {
        return anchor_case(a[0].as_bool().unwrap_or(false), a[1].as_bool().unwrap_or(false), a[2].as_i64().unwrap_or(10) as c_int, 3);
    }
    if let Ok(c) = serde_json::from_value::<RegOrProbe>(v.clone()) {
        return run_any(&c);
    }
    let case: RegCase = serde_json::from_value(v.clone()).expect("case");
    run_case(&case)
}

macro_rules! worker_fn {
    ($name:ident, $focus:expr) => {
        fn $name(def: &PropDef, args: &WorkerArgs) -> WorkerReport {
            generic_worker(def, args, strategy($focus), &run_case)
        }
    };
}
fn w01(def: &PropDef, args: &WorkerArgs) -> WorkerReport {
    let strat = prop_oneof![
        3 => strategy(Focus::C01).prop_map(RegOrProbe::Reg),
        3 => crate::probe::strategy().prop_map(RegOrProbe::Probe),
        1 => crate::iter::strategy(true).prop_map(RegOrProbe::Iter),
        1 => crate::c13::strategy().prop_map(|mut c| {
            c.reader_gone = true;
            c.kind %= 4;
            // small bursts: this family is about who releases the descriptor, not about capacity
            for b in c.bursts.iter_mut() {
                *b = 1 + *b % 7;
            }
            RegOrProbe::Pipe(c)
        }),
    ]
    .boxed();
    generic_worker(def, args, strat, &run_any)
}
worker_fn!(w02, Focus::C02);
worker_fn!(w04, Focus::C04);
fn w18(def: &PropDef, args: &WorkerArgs) -> WorkerReport {
    let strat = prop_oneof![
        5 => strategy(Focus::C18).prop_map(RegOrProbe::Reg),
        1 => sustain_strategy().prop_map(RegOrProbe::Reg),
        3 => crate::probe::strategy().prop_map(RegOrProbe::Probe),
        1 => crate::probe::sustain_strategy().prop_map(RegOrProbe::Probe),
        2 => crate::iter::strategy(true).prop_map(RegOrProbe::Iter),
    ]
    .boxed();
    generic_worker(def, args, strat, &run_any)
}

const ASSUME: &[&str] = &[
    "deliveries are simulated: the real dispatcher is called directly at instrumented points (every shared-memory access of the registry), on a delivery thread or nested on the interrupted thread",
    "a signal is not nested into its own handler on the same thread (kernel mask); other signals may nest",
    "arrival points are shim operations; between two of them the code touches only private memory",
    "snapshot lifetime is observed through Alloc/Publish/Free/SectionOpen/SectionClose events with address epochs",
];

pub static C01: PropDef = PropDef {
    id: "C01",
    prefixes: &["C01/", "crash/sig=11", "crash/sig=7"],
    rule: "three proptest-generated families: (a) registry programs of 2-5 threads x <=5 ops over {register, unregister(own/shared id), unregister_signal, deliver} on 3 signals + nested deliveries at generated points x byte schedule, one forked child per case; (b) the bare half-lock in-process (stores/updates, read sections with body points, nested and isolated reads, weak-memory choices on); (c) iterator instances dropped together with all handles while deliveries keep arriving (no action of the dropped instance may run afterwards); oracle: quiescence of removed actions, capture released exactly once by the removing thread inside the removing call at handler depth 0, snapshot epochs (no free while a read section is open, no section on a freed snapshot), no action sees a released capture. Non-trivial = a read section overlapped a removal's publish..return window or a delivery nested inside a removal; distinct = hash of realised call/return/delivery/publish interleaving. Real in-flight anchors (worker 0): a kernel-delivered signal blocked inside an action for 0.6 s (thorough 3 s) while another thread removes an action by id / by signal / the running action itself - the removal must not return before the delivery is over",
    assumptions: ASSUME,
    cases: (3000, 60_000),
    shrink_iters: 600,
    worker: w01,
    replay,
    extra: Some(inflight_extra),
};

pub static C02: PropDef = PropDef {
    id: "C02",
    prefixes: &["C02/"],
    rule: "same generator (delivery-heavy weights); oracle: the ordered list of actions a delivery ran equals the action list of one registry state that was current during the delivery (state sequence reconstructed from the publish events and the serialised mutators), plus black-box must-run/may-run/no-duplicate/no-other-signal/definite-order checks. Non-trivial = a publish happened during the delivery or the delivery ran >=2 actions; distinct = hash of realised interleaving",
    assumptions: ASSUME,
    cases: (1500, 40_000),
    shrink_iters: 600,
    worker: w02,
    replay,
    extra: Some(inflight_extra),
};

// ---- C04 real-signal anchors: the kernel, not the simulation, calls the library's handler
static ANCHOR_SEQ: AtomicU32 = AtomicU32::new(0);
static ANCHOR_PRIOR_AT: [AtomicU32; 8] = [const { AtomicU32::new(0) }; 8];
static ANCHOR_ACTION_AT: [AtomicU32; 8] = [const { AtomicU32::new(0) }; 8];
static ANCHOR_PRIOR_INFO: std::sync::atomic::AtomicUsize = std::sync::atomic::AtomicUsize::new(0);
static ANCHOR_ACTION_INFO: std::sync::atomic::AtomicUsize = std::sync::atomic::AtomicUsize::new(0);
static ANCHOR_PRIOR_SIG: std::sync::atomic::AtomicI32 = std::sync::atomic::AtomicI32::new(0);
static ANCHOR_ROUND: AtomicU32 = AtomicU32::new(0);

extern "C" fn anchor_prior1(sig: c_int) {
    let r = ANCHOR_ROUND.load(Ordering::SeqCst) as usize % 8;
    ANCHOR_PRIOR_AT[r].store(ANCHOR_SEQ.fetch_add(1, Ordering::SeqCst) + 1, Ordering::SeqCst);
    ANCHOR_PRIOR_SIG.store(sig, Ordering::SeqCst);
}

static ANCHOR_PRIOR_VAL: std::sync::atomic::AtomicI64 = std::sync::atomic::AtomicI64::new(0);
extern "C" {
    fn sigqueue(pid: libc::pid_t, sig: c_int, value: libc::sigval) -> c_int;
}

extern "C" fn anchor_prior3(sig: c_int, info: *mut siginfo_t, _ctx: *mut c_void) {
    // the payload of a queued signal: si_value at offset 24 (x86-64 / aarch64 Linux layout)
    ANCHOR_PRIOR_VAL.store(if info.is_null() { -1 } else { unsafe { *((info as *const u8).add(24) as *const i32) as i64 } }, Ordering::SeqCst);
    let r = ANCHOR_ROUND.load(Ordering::SeqCst) as usize % 8;
    ANCHOR_PRIOR_AT[r].store(ANCHOR_SEQ.fetch_add(1, Ordering::SeqCst) + 1, Ordering::SeqCst);
    ANCHOR_PRIOR_SIG.store(if info.is_null() { -1 } else { unsafe { (*info).si_signo } } * 1000 + sig, Ordering::SeqCst);
    ANCHOR_PRIOR_INFO.store(info as usize, Ordering::SeqCst);
}

fn anchor_case(prior_siginfo: bool, action_siginfo: bool, sig: c_int, rounds: u32) -> CaseReport {
    let (recs, end) = crate::forkrun::fork_stream(10_000, move |fd| {
        crate::vsched::install();
        unsafe {
            let mut sa: libc::sigaction = std::mem::zeroed();
            if prior_siginfo {
                sa.sa_sigaction = anchor_prior3 as usize;
                sa.sa_flags = libc::SA_SIGINFO;
            } else {
                sa.sa_sigaction = anchor_prior1 as usize;
            }
            libc::sigaction(sig, &sa, std::ptr::null_mut());
            let r = if action_siginfo {
                registry::register_sigaction(sig, |info: &siginfo_t| {
                    let r = ANCHOR_ROUND.load(Ordering::SeqCst) as usize % 8;
                    ANCHOR_ACTION_AT[r].store(ANCHOR_SEQ.fetch_add(1, Ordering::SeqCst) + 1, Ordering::SeqCst);
                    ANCHOR_ACTION_INFO.store(info as *const siginfo_t as usize, Ordering::SeqCst);
                })
            } else {
                registry::register(sig, || {
                    let r = ANCHOR_ROUND.load(Ordering::SeqCst) as usize % 8;
                    ANCHOR_ACTION_AT[r].store(ANCHOR_SEQ.fetch_add(1, Ordering::SeqCst) + 1, Ordering::SeqCst);
                })
            };
            if r.is_err() {
                crate::forkrun::emit(fd, &json!({"k": "infra"}));
                return;
            }
        }
        for round in 0..rounds {
            if round == 1 && [libc::SIGTSTP, libc::SIGTTIN, libc::SIGTTOU].contains(&sig) {
                // the TUI suspend pattern: emulate the default action (the process stops), a helper
                // continues it; the library's handler and the chained one must work as before
                let me = unsafe { libc::getpid() };
                let helper = unsafe { libc::fork() };
                if helper == 0 {
                    for _ in 0..4000 {
                        let st = std::fs::read_to_string(format!("/proc/{}/stat", me)).unwrap_or_default();
                        if st.rsplit(')').next().and_then(|r| r.split_whitespace().next()) == Some("T") {
                            unsafe { libc::kill(me, libc::SIGCONT) };
                            unsafe { libc::_exit(0) };
                        }
                        unsafe { libc::usleep(500) };
                    }
                    unsafe { libc::_exit(1) };
                }
                let _ = signal_hook::low_level::emulate_default_handler(sig);
                let mut st = 0;
                unsafe { libc::waitpid(helper, &mut st, 0) };
                crate::forkrun::emit(fd, &json!({"k": "suspended-and-continued", "helper": libc::WEXITSTATUS(st)}));
            }
            ANCHOR_ROUND.store(round, Ordering::SeqCst);
            let before = ANCHOR_SEQ.load(Ordering::SeqCst);
            // a queued signal with a payload of its own, so that a record left over from an
            // earlier delivery cannot pass for this one's
            let payload = 0x1110 + round as i32;
            unsafe { sigqueue(libc::getpid(), sig, libc::sigval { sival_ptr: payload as usize as *mut c_void }) };
            let after = ANCHOR_SEQ.load(Ordering::SeqCst);
            crate::forkrun::emit(
                fd,
                &json!({"k": "round", "calls": after - before, "prior_at": ANCHOR_PRIOR_AT[round as usize % 8].load(Ordering::SeqCst), "action_at": ANCHOR_ACTION_AT[round as usize % 8].load(Ordering::SeqCst),
                    "payload": payload, "prior_val": ANCHOR_PRIOR_VAL.load(Ordering::SeqCst),
                    "prior_sig": ANCHOR_PRIOR_SIG.load(Ordering::SeqCst), "prior_info": ANCHOR_PRIOR_INFO.load(Ordering::SeqCst), "action_info": ANCHOR_ACTION_INFO.load(Ordering::SeqCst)}),
            );
        }
        crate::forkrun::emit(fd, &json!({"k": "done"}));
    });
    let mut rep = CaseReport::default();
    rep.class("real-signal-anchor");
    rep.nontrivial = true;
    rep.nontrivial_by = vec![("C04".into(), true)];
    rep.hash = hash_of(&("anchor", prior_siginfo, action_siginfo, sig));
    rep.sample = Some(json!({"anchor": {"prior_siginfo": prior_siginfo, "action_siginfo": action_siginfo, "signal": sig}, "records": recs, "end": format!("{:?}", end)}));
    if recs.iter().any(|r| r["k"] == "suspended-and-continued") {
        rep.class("anchor-after-suspend");
        if let crate::forkrun::End::Signaled(k) = end {
            rep.viol("C04/args", format!("after one suspend/continue cycle through emulate_default_handler({}) the next delivery killed the process with signal {} inside the chained handler (it was handed something that is not the kernel's info)", sig, k));
            return rep;
        }
    }
    if end != crate::forkrun::End::Exited(0) || !recs.iter().any(|r| r["k"] == "done") {
        rep.inconclusive = Some(format!("anchor probe ended {:?}", end));
        return rep;
    }
    for r in recs.iter().filter(|r| r["k"] == "round") {
        if r["calls"] != 2 {
            rep.viol("C04/foreign-calls=x", format!("real delivery of signal {}: pre-existing handler + action were called {} times in total (expected 2)", sig, r["calls"]));
        }
        if r["prior_at"].as_u64() >= r["action_at"].as_u64() {
            rep.viol("C04/foreign-after-action", format!("real delivery of signal {}: the pre-existing handler ran after the action", sig));
        }
        let want = if prior_siginfo { sig as i64 * 1000 + sig as i64 } else { sig as i64 };
        if r["prior_sig"].as_i64() != Some(want) {
            rep.viol("C04/args", format!("real delivery of signal {}: the pre-existing handler saw signal/info {} (expected {})", sig, r["prior_sig"], want));
        }
        if prior_siginfo && r["prior_val"] != r["payload"] {
            rep.viol("C04/args", format!("real delivery of signal {} queued with payload {}: the pre-existing three-argument handler found payload {} in the info it was handed (not the kernel's record of this delivery)", sig, r["payload"], r["prior_val"]));
        }
        if prior_siginfo && action_siginfo && r["prior_info"] != r["action_info"] {
            rep.viol("C04/args", format!("real delivery of signal {}: pre-existing handler and action received different info pointers", sig));
        }
    }
    rep
}

fn c04_extra(def: &PropDef, _args: &WorkerArgs, report: &mut WorkerReport) {
    let known = Known::load();
    for ps in [false, true] {
        for asi in [false, true] {
            for sig in [libc::SIGUSR1, libc::SIGHUP, 64, libc::SIGTSTP] {
                let rep = anchor_case(ps, asi, sig, 3);
                if let Some(v) = report.absorb(def, &rep, &known) {
                    report.violation = Some((v.key, v.msg, json!({"anchor": [ps, asi, sig]})));
                    return;
                }
            }
        }
    }
}

pub static C04: PropDef = PropDef {
    id: "C04",
    prefixes: &["C04/"],
    rule: "same generator with real pre-existing dispositions {default, ignore, plain handler, siginfo handler} x additional sa_flags {none, SA_RESTART, SA_NODEFER|SA_ONSTACK|SA_RESTART, SA_NOCLDSTOP|SA_NOCLDWAIT, SA_RESETHAND (one-shot, modelled by the simulated kernel), SA_SIGINFO left set on default/ignore} installed by sigaction before the run; oracle: every delivery dispatched to the library for a signal with a pre-existing handler calls it exactly once, before any action, with its convention and the kernel's info/context pointers; none for default/ignore. Non-trivial = delivery between the library handler's installation and the completion of that first registration, or during another signal's first registration; distinct = hash of realised interleaving + priors",
    assumptions: ASSUME,
    cases: (1500, 40_000),
    shrink_iters: 600,
    worker: w04,
    replay,
    extra: Some(c04_extra),
};

pub static C18: PropDef = PropDef {
    id: "C18",
    prefixes: &["C18/"],
    rule: "two scopes (whole registry in a forked child; bare half-lock in-process), same generators with 2-5 mutator threads, panicking mutators (forbidden signal; capture whose Drop panics inside the publishing call) and finite deliveries; after the generated schedule prefix the executor completes fairly; oracle: no deadlock, completion within the step bound, no unexpected panic in a later mutator. Non-trivial = a mutator blocked on the writer mutex, the barrier spun, or a panicking mutator preceded another; distinct = hash of realised interleaving",
    assumptions: ASSUME,
    cases: (2500, 60_000),
    shrink_iters: 600,
    worker: w18,
    replay,
    extra: Some(c18_extra),
};

use std::sync::atomic::AtomicBool;
// ---- C01 / C02 real in-flight anchors: a delivery that really stays inside an action for a long
// time (it blocks on a pipe) while another thread removes an action. The removal must not return
// before the delivery is over, however long that takes - no simulated schedule can hold a delivery
// for the ~10^6 spin rounds after which a "robust" barrier might give up.
static INFLIGHT_IN: AtomicBool = AtomicBool::new(false);
static INFLIGHT_RELEASE_FD: std::sync::atomic::AtomicI32 = std::sync::atomic::AtomicI32::new(-1);
static INFLIGHT_VICTIM_RUNS: AtomicU32 = AtomicU32::new(0);
static INFLIGHT_RETURNED: AtomicBool = AtomicBool::new(false);
static INFLIGHT_VICTIM_AFTER_RETURN: AtomicBool = AtomicBool::new(false);

/// variant 0: unregister(victim id), 1: unregister_signal, 2: unregister(id of the blocked action itself)
fn inflight_anchor(variant: u8, hold_ms: u64) -> CaseReport {
    let (recs, end) = crate::forkrun::fork_stream(15_000, move |fd| {
        crate::vsched::install();
        let sig = libc::SIGUSR1;
        let mut p = [0i32; 2];
        unsafe { libc::pipe(p.as_mut_ptr()) };
        INFLIGHT_RELEASE_FD.store(p[0], Ordering::SeqCst);
        let blocker = unsafe {
            registry::register(sig, || {
                INFLIGHT_IN.store(true, Ordering::SeqCst);
                let mut b = [0u8; 1];
                loop {
                    let n = libc::read(INFLIGHT_RELEASE_FD.load(Ordering::SeqCst), b.as_mut_ptr() as *mut _, 1);
                    if n == 1 || (n < 0 && *libc::__errno_location() != libc::EINTR) {
                        break;
                    }
                }
            })
        };
        let victim = unsafe {
            registry::register(sig, || {
                INFLIGHT_VICTIM_RUNS.fetch_add(1, Ordering::SeqCst);
                if INFLIGHT_RETURNED.load(Ordering::SeqCst) {
                    INFLIGHT_VICTIM_AFTER_RETURN.store(true, Ordering::SeqCst);
                }
            })
        };
        let (blocker, victim) = match (blocker, victim) {
            (Ok(a), Ok(b)) => (a, b),
            _ => {
                crate::forkrun::emit(fd, &json!({"k": "infra"}));
                return;
            }
        };
        let deliverer = std::thread::spawn(move || unsafe {
            libc::raise(sig);
        });
        while !INFLIGHT_IN.load(Ordering::SeqCst) {
            std::thread::sleep(std::time::Duration::from_micros(100));
        }
        let remover = std::thread::spawn(move || {
            let r = match variant % 3 {
                0 => registry::unregister(victim),
                #[allow(deprecated)]
                1 => registry::unregister_signal(sig),
                _ => registry::unregister(blocker),
            };
            INFLIGHT_RETURNED.store(true, Ordering::SeqCst);
            r
        });
        std::thread::sleep(std::time::Duration::from_millis(hold_ms));
        // the delivery is still inside the blocking action: has the removal come back already?
        let early = INFLIGHT_RETURNED.load(Ordering::SeqCst);
        let b = b"R";
        unsafe { libc::write(p[1], b.as_ptr() as *const _, 1) };
        let _ = deliverer.join();
        let ret = remover.join().unwrap_or(false);
        crate::forkrun::emit(
            fd,
            &json!({"k": "inflight", "returned_while_in_flight": early, "removal_ret": ret, "victim_runs": INFLIGHT_VICTIM_RUNS.load(Ordering::SeqCst), "victim_ran_after_removal_returned": INFLIGHT_VICTIM_AFTER_RETURN.load(Ordering::SeqCst)}),
        );
        crate::forkrun::emit(fd, &json!({"k": "done"}));
    });
    let mut rep = CaseReport::default();
    rep.class("real-in-flight-anchor");
    rep.nontrivial = true;
    rep.nontrivial_by = vec![("C01".into(), true), ("C02".into(), true)];
    rep.hash = hash_of(&("inflight", variant));
    rep.sample = Some(json!({"inflight_anchor": {"variant": variant, "hold_ms": hold_ms}, "records": recs, "end": format!("{:?}", end)}));
    if end != crate::forkrun::End::Exited(0) || !recs.iter().any(|r| r["k"] == "done") {
        rep.inconclusive = Some(format!("in-flight anchor ended {:?}", end));
        return rep;
    }
    if let Some(r) = recs.iter().find(|r| r["k"] == "inflight") {
        let what = ["unregister(id of a later action of that delivery)", "unregister_signal", "unregister(id of the action that is running)"][variant as usize % 3];
        if r["returned_while_in_flight"] == true {
            rep.viol("C01/removal-returned-during-delivery", format!("{} returned while a delivery that began before it was still inside an action ({} ms in flight): the removed action may still be running or about to run", what, hold_ms));
        }
        if r["victim_ran_after_removal_returned"] == true {
            rep.viol("C02/ran-after-removal-returned", format!("an action ran although its removal ({}) had already returned", what));
            rep.viol("C01/ran-after-removal", format!("an action ran although its removal ({}) had already returned", what));
        }
        if r["removal_ret"] != true {
            rep.viol("C05/ret@unregister", format!("{} of a registered action returned false", what));
        }
    }
    rep
}

fn inflight_extra(def: &PropDef, args: &WorkerArgs, report: &mut WorkerReport) {
    let known = Known::load();
    let hold = if args.tier == Tier::Thorough { 3000 } else { 600 };
    for variant in 0..3u8 {
        let rep = inflight_anchor(variant, hold);
        if let Some(v) = report.absorb(def, &rep, &known) {
            report.violation = Some((v.key, v.msg, json!({"inflight_anchor": [variant, hold]})));
            return;
        }
    }
}

// ---- C14 / C18: a refused registration whose action owns something that goes back into the
// registry when it is released (an RAII guard that unregisters another action on drop, the last
// handle of an iterator). The refused action must be released where that is harmless - not while
// the registering call still holds the registry's writer lock.
struct UnregisterOnDrop(Option<SigId>);
impl Drop for UnregisterOnDrop {
    fn drop(&mut self) {
        if let Some(id) = self.0.take() {
            registry::unregister(id);
        }
    }
}

/// variant 0: SIGKILL, 1: SIGSTOP through `register_signal_unchecked`; 2: SIGKILL through
/// `register_unchecked`; 3: an out-of-range number through the checked `register`
pub fn refused_reentrant_probe(variant: u8) -> CaseReport {
    let (recs, end) = crate::forkrun::fork_stream(6_000, move |fd| {
        crate::vsched::install();
        let dummy = match unsafe { registry::register(libc::SIGUSR2, || ()) } {
            Ok(id) => id,
            Err(_) => {
                crate::forkrun::emit(fd, &json!({"k": "infra"}));
                return;
            }
        };
        let guard = UnregisterOnDrop(Some(dummy));
        crate::forkrun::emit(fd, &json!({"k": "calling"}));
        let r = std::panic::catch_unwind(std::panic::AssertUnwindSafe(move || unsafe {
            match variant % 4 {
                0 => registry::register_signal_unchecked(libc::SIGKILL, move || {
                    let _ = &guard;
                }),
                1 => registry::register_signal_unchecked(libc::SIGSTOP, move || {
                    let _ = &guard;
                }),
                2 => registry::register_unchecked(libc::SIGKILL, move |_| {
                    let _ = &guard;
                }),
                _ => registry::register(1000, move || {
                    let _ = &guard;
                }),
            }
        }));
        let out = match r {
            Ok(Ok(_)) => "ok",
            Ok(Err(_)) => "err",
            Err(_) => "panic",
        };
        // the guard went with the refused action: the dummy is gone, and the registry still works
        let again = registry::unregister(dummy);
        let works = unsafe { registry::register(libc::SIGUSR2, || ()) }.is_ok();
        crate::forkrun::emit(fd, &json!({"k": "returned", "out": out, "dummy_still_registered": again, "registry_usable": works}));
        crate::forkrun::emit(fd, &json!({"k": "done"}));
    });
    let mut rep = CaseReport::default();
    rep.class("refused-registration-with-reentrant-capture");
    rep.nontrivial = true;
    rep.hash = hash_of(&("refused-reentrant", variant));
    rep.sample = Some(json!({"refused_reentrant": variant, "records": recs, "end": format!("{:?}", end)}));
    let called = recs.iter().any(|r| r["k"] == "calling");
    let returned = recs.iter().find(|r| r["k"] == "returned");
    match (&end, returned) {
        (crate::forkrun::End::Timeout, None) if called => {
            let what = ["register_signal_unchecked(SIGKILL)", "register_signal_unchecked(SIGSTOP)", "register_unchecked(SIGKILL)", "register(1000)"][variant as usize % 4];
            rep.viol("C18/deadlock", format!("{} - refused by the OS - never returned: its action (which owns a guard that unregisters another action when released) was destroyed while the registering call still held the registry's writer lock", what));
            rep.viol("C14/hang", format!("{} with an action that owns an unregister-on-drop guard never returned", what));
        }
        (_, Some(r)) => {
            if r["out"] != "err" {
                rep.viol("C14/outcome/refused-reentrant", format!("a registration the OS refuses returned {}", r["out"]));
            }
            if r["dummy_still_registered"] == true {
                rep.viol("C14/leak", "the action of a refused registration was never released (the guard it owned did not run)".into());
            }
            if r["registry_usable"] != true {
                rep.viol("C14/registry-disturbed", "after a refused registration the registry refused an ordinary one".into());
            }
        }
        _ => rep.inconclusive = Some(format!("refused-reentrant probe ended {:?}", end)),
    }
    rep
}

/// Use after fork (real threads, real signals): a process uses the registry, forks, and the child
/// - a fresh, multi-threaded user of the inherited registry - makes its first mutator call while
/// a delivery is in flight on another of its threads, then further mutator calls once that
/// delivery has returned. Those later calls overlap nothing and must return on their own; the
/// action removed before the fork must stay removed, the inherited one must still run.
/// `first`: 0 register on the busy signal, 1 register on another signal, 2 unregister of an id
/// issued before the fork, 3 a new iterator instance, 4 unregister of a stale id;
/// `inflight`: number of threads with a delivery in flight during that first call.
pub fn fork_then_use_probe(first: u8, inflight: u8) -> CaseReport {
    use std::sync::atomic::{AtomicBool, AtomicUsize, Ordering};
    static RELEASE: AtomicBool = AtomicBool::new(false);
    static ENTERED: AtomicUsize = AtomicUsize::new(0);
    static KEPT_RAN: AtomicUsize = AtomicUsize::new(0);
    static REMOVED_RAN: AtomicUsize = AtomicUsize::new(0);
    let inflight = inflight.clamp(1, 3);
    let (recs, end) = crate::forkrun::fork_stream(30_000, move |fd| {
        crate::vsched::install();
        crate::forkrun::ignore_sigpipe();
        // ---- the parent-to-be uses the registry
        let busy = libc::SIGUSR1;
        let kept = unsafe {
            registry::register(busy, || {
                KEPT_RAN.fetch_add(1, Ordering::SeqCst);
                ENTERED.fetch_add(1, Ordering::SeqCst);
                // a slow action: stays in flight until released (bounded: 10 s)
                let t0 = std::time::Instant::now();
                while !RELEASE.load(Ordering::SeqCst) && t0.elapsed().as_secs() < 10 {
                    std::hint::spin_loop();
                }
            })
        };
        let removed = unsafe {
            registry::register(busy, || {
                REMOVED_RAN.fetch_add(1, Ordering::SeqCst);
            })
        };
        let (kept, removed) = match (kept, removed) {
            (Ok(a), Ok(b)) => (a, b),
            _ => return,
        };
        RELEASE.store(true, Ordering::SeqCst);
        unsafe { libc::raise(busy) };
        registry::unregister(removed);
        RELEASE.store(false, Ordering::SeqCst);
        ENTERED.store(0, Ordering::SeqCst);
        KEPT_RAN.store(0, Ordering::SeqCst);
        REMOVED_RAN.store(0, Ordering::SeqCst);
        // ---- fork: the rest runs in the child of this process
        let pid = unsafe { libc::fork() };
        if pid < 0 {
            return;
        }
        if pid > 0 {
            let mut st = 0;
            unsafe { libc::waitpid(pid, &mut st, 0) };
            if libc::WIFSIGNALED(st) {
                crate::forkrun::emit(fd, &json!({"k": "grandchild-killed", "sig": libc::WTERMSIG(st)}));
            }
            return;
        }
        unsafe { libc::prctl(libc::PR_SET_PDEATHSIG, libc::SIGKILL) };
        let mut ths = Vec::new();
        for _ in 0..inflight {
            ths.push(std::thread::spawn(move || unsafe {
                libc::raise(busy);
            }));
        }
        // wait until every delivery is inside the slow action
        let t0 = std::time::Instant::now();
        while ENTERED.load(Ordering::SeqCst) < inflight as usize && t0.elapsed().as_secs() < 5 {
            std::thread::yield_now();
        }
        let all_in = ENTERED.load(Ordering::SeqCst) >= inflight as usize;
        // somebody lets the deliveries go a little later - the first mutator call may have to
        // wait for them (that is the point of the half-lock), so it cannot be this thread
        let releaser = std::thread::spawn(|| {
            std::thread::sleep(std::time::Duration::from_millis(30));
            RELEASE.store(true, Ordering::SeqCst);
        });
        crate::forkrun::emit(fd, &json!({"k": "first-call", "all_in_flight": all_in}));
        let mut keep: Vec<Box<dyn std::any::Any>> = Vec::new();
        match first % 5 {
            0 => {
                let _ = unsafe { registry::register(busy, || ()) };
            }
            1 => {
                let _ = unsafe { registry::register(libc::SIGUSR2, || ()) };
            }
            2 => {
                registry::unregister(kept);
            }
            3 => {
                if let Ok(s) = signal_hook::iterator::Signals::new(&[libc::SIGUSR2]) {
                    keep.push(Box::new(s));
                }
            }
            _ => {
                registry::unregister(removed);
            }
        }
        crate::forkrun::emit(fd, &json!({"k": "first-returned"}));
        let _ = releaser.join();
        for t in ths {
            let _ = t.join();
        }
        // every delivery has returned, no new one arrives: from here on a mutator is alone
        crate::forkrun::emit(fd, &json!({"k": "quiet", "kept_ran": KEPT_RAN.load(Ordering::SeqCst), "removed_ran": REMOVED_RAN.load(Ordering::SeqCst)}));
        let done = std::sync::Arc::new(AtomicBool::new(false));
        let d2 = done.clone();
        let fd2 = fd;
        std::thread::spawn(move || {
            // watchdog inside the case: the later calls need microseconds
            for _ in 0..800 {
                std::thread::sleep(std::time::Duration::from_millis(10));
                if d2.load(Ordering::SeqCst) {
                    return;
                }
            }
            crate::forkrun::emit(fd2, &json!({"k": "later-calls-stuck"}));
            unsafe { libc::_exit(0) };
        });
        let mut ok = true;
        for i in 0..6 {
            match unsafe { registry::register(if i % 2 == 0 { busy } else { libc::SIGUSR2 }, || ()) } {
                Ok(id) => ok &= registry::unregister(id),
                Err(_) => ok = false,
            }
        }
        drop(keep);
        done.store(true, Ordering::SeqCst);
        crate::forkrun::emit(fd, &json!({"k": "later-returned", "ok": ok}));
        crate::forkrun::emit(fd, &json!({"k": "done"}));
    });
    let mut rep = CaseReport::default();
    rep.class("first-use-in-a-forked-child-under-a-delivery");
    rep.nontrivial = true;
    rep.hash = hash_of(&("fork-then-use", first, inflight));
    rep.sample = Some(json!({"fork_then_use": [first, inflight], "records": recs, "end": format!("{:?}", end)}));
    let has = |k: &str| recs.iter().any(|r| r["k"] == k);
    if let Some(k) = recs.iter().find(|r| r["k"] == "grandchild-killed") {
        rep.viol(&format!("crash/sig={}", k["sig"]), format!("use after fork: the child was killed by signal {}", k["sig"]));
        return rep;
    }
    match &end {
        crate::forkrun::End::Infra(e) => {
            rep.inconclusive = Some(e.clone());
            return rep;
        }
        crate::forkrun::End::Timeout => {
            rep.inconclusive = Some("fork-then-use probe timed out".into());
            return rep;
        }
        _ => {}
    }
    if !has("first-call") {
        rep.inconclusive = Some("fork-then-use probe: set-up did not complete".into());
        return rep;
    }
    if recs.iter().find(|r| r["k"] == "first-call").map_or(true, |r| r["all_in_flight"] != true) {
        rep.inconclusive = Some("fork-then-use probe: the deliveries did not get in flight in time".into());
        return rep;
    }
    if has("later-calls-stuck") {
        rep.viol("C18/needs-other-thread", format!("a process used the registry and forked; in the child the first registry call (variant {}) overlapped {} in-flight deliver{}; after all of them had returned and with no further delivery, six register/unregister pairs did not finish within 8 s (they need microseconds): the registry is wedged for the rest of that process", first % 5, inflight, if inflight == 1 { "y" } else { "ies" }));
        return rep;
    }
    if let Some(q) = recs.iter().find(|r| r["k"] == "quiet") {
        if q["removed_ran"].as_u64().unwrap_or(0) > 0 {
            rep.viol("C01/ran-after-removal", format!("use after fork: an action removed before the fork ran {} time(s) in the child", q["removed_ran"]));
        }
        if q["kept_ran"].as_u64() != Some(inflight as u64) {
            rep.viol("C02/missed", format!("use after fork: the inherited action ran {} time(s) for {} deliveries", q["kept_ran"], inflight));
        }
    }
    match recs.iter().find(|r| r["k"] == "later-returned") {
        Some(r) => {
            if r["ok"] != true {
                rep.viol("C05/ret@register", "use after fork: a register/unregister pair in the child failed".into());
            }
        }
        None => rep.inconclusive = Some(format!("fork-then-use probe ended early ({:?})", end)),
    }
    rep
}

fn c18_extra(def: &PropDef, _args: &WorkerArgs, report: &mut WorkerReport) {
    let known = Known::load();
    for first in 0..5u8 {
        for inflight in [1u8, 2] {
            let rep = fork_then_use_probe(first, inflight);
            if let Some(x) = report.absorb(def, &rep, &known) {
                report.violation = Some((x.key, x.msg, json!({"fork_then_use": [first, inflight]})));
                return;
            }
        }
    }
    for v in 0..4u8 {
        let rep = refused_reentrant_probe(v);
        if let Some(x) = report.absorb(def, &rep, &known) {
            report.violation = Some((x.key, x.msg, json!({"refused_reentrant": v})));
            return;
        }
    }
}
