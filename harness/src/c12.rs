//! C12 — a Signals instance survives rejected additions and cleans up what it owns (forkprobe).

use crate::c14::SAFE;
use crate::driver::*;
use crate::forkrun::*;
use libc::c_int;
use proptest::collection::vec;
use proptest::prelude::*;
use serde::{Deserialize, Serialize};
use serde_json::{json, Value};
use signal_hook::iterator::backend::{Handle, SignalDelivery};
use signal_hook::iterator::exfiltrator::{Exfiltrator, SignalOnly, WithOrigin, WithRawSiginfo};
use signal_hook::iterator::SignalsInfo;
use std::collections::BTreeSet;
use std::os::unix::io::AsRawFd;
use std::os::unix::net::UnixStream;
use std::sync::atomic::{AtomicUsize, Ordering};
use std::sync::Arc;

#[derive(Clone, Debug, Serialize, Deserialize, PartialEq)]
pub enum Op {
    Add(i32),
    AddViaHandle(i32),
    CloneHandle,
    DropHandle,
    DropInstance,
    Probe,
}

#[derive(Clone, Debug, Serialize, Deserialize)]
pub struct C12Case {
    pub exf: u8,
    pub with_pipe: bool,
    pub init: Vec<i32>,
    pub ops: Vec<Op>,
}

fn number() -> BoxedStrategy<i32> {
    prop_oneof![
        5 => proptest::sample::select(SAFE.to_vec()),
        2 => proptest::sample::select(vec![libc::SIGKILL, libc::SIGSTOP, libc::SIGILL, libc::SIGFPE, libc::SIGSEGV]),
        3 => proptest::sample::select(vec![i32::MIN, -2, -1, 0, 32, 33, 65, 66, 126, 127, 128, 129, 200, i32::MAX]),
        1 => proptest::sample::select(vec![31, 34, 35, 63, 64, libc::SIGTERM, libc::SIGCONT]),
        1 => 65i32..128,
    ]
    .boxed()
}

pub fn strategy() -> BoxedStrategy<C12Case> {
    let op = prop_oneof![
        5 => number().prop_map(Op::Add),
        3 => number().prop_map(Op::AddViaHandle),
        2 => Just(Op::CloneHandle),
        2 => Just(Op::DropHandle),
        1 => Just(Op::DropInstance),
        2 => Just(Op::Probe),
    ];
    (
        0u8..3,
        any::<bool>(),
        prop_oneof![
            4 => vec(proptest::sample::select(SAFE.to_vec()), 0..3),
            1 => vec(number(), 1..4),
        ],
        vec(op, 1..13),
    )
        .prop_map(|(exf, with_pipe, init, ops)| C12Case { exf, with_pipe, init, ops })
        .boxed()
}

// ---- expectation for adding n to an instance
#[derive(Clone, Copy, Debug, PartialEq)]
enum Exp {
    Panic,
    Err,
    Ok,
}

fn exp_add(n: i32) -> Exp {
    match crate::c14::expect(12, n) {
        crate::c14::Expect::Panic => Exp::Panic,
        crate::c14::Expect::Err => Exp::Err,
        crate::c14::Expect::Ok => Exp::Ok,
    }
}

// ---- child side
static WITNESS: [AtomicUsize; 6] = [const { AtomicUsize::new(0) }; 6];

trait SigOf {
    fn sig(&self) -> c_int;
}
impl SigOf for c_int {
    fn sig(&self) -> c_int {
        *self
    }
}
impl SigOf for libc::siginfo_t {
    fn sig(&self) -> c_int {
        self.si_signo
    }
}
impl SigOf for signal_hook::iterator::exfiltrator::origin::Origin {
    fn sig(&self) -> c_int {
        self.signal
    }
}

enum Inst<E: Exfiltrator> {
    Info(SignalsInfo<E>),
    Deliv(SignalDelivery<UnixStream, E>),
}

impl<E: Exfiltrator> Inst<E>
where
    E::Output: SigOf,
{
    fn handle(&self) -> Handle {
        match self {
            Inst::Info(s) => s.handle(),
            Inst::Deliv(d) => d.handle(),
        }
    }
    /// the instance's own front-end where it has one (`SignalsInfo::add_signal`), else its handle
    fn add_signal(&self, n: c_int) -> Result<(), std::io::Error> {
        match self {
            Inst::Info(s) => s.add_signal(n),
            Inst::Deliv(d) => d.handle().add_signal(n),
        }
    }
    fn pending(&mut self) -> Vec<c_int> {
        match self {
            Inst::Info(s) => s.pending().map(|x| x.sig()).collect(),
            Inst::Deliv(d) => d.pending().map(|x| x.sig()).collect(),
        }
    }
}

fn outcome<T>(r: std::thread::Result<Result<T, std::io::Error>>) -> (&'static str, Option<T>) {
    match r {
        Ok(Ok(v)) => ("ok", Some(v)),
        Ok(Err(_)) => ("err", None),
        Err(_) => ("panic", None),
    }
}

fn child<E>(case: &C12Case, fd: i32)
where
    E: Exfiltrator + Default,
    E::Output: SigOf,
{
    crate::vsched::install();
    ignore_sigpipe();
    // witnesses: the harness's own registrations on every SAFE signal
    for (i, s) in SAFE.iter().enumerate() {
        unsafe {
            signal_hook_registry::register(*s, move || {
                WITNESS[i].fetch_add(1, Ordering::SeqCst);
            })
            .expect("witness");
        }
    }
    let base_fds = open_fd_count();
    let mut pipe_fds: Vec<i32> = Vec::new();
    let init = case.init.clone();
    let (o, inst) = if case.with_pipe {
        let (r, w) = UnixStream::pair().expect("pair");
        pipe_fds.push(r.as_raw_fd());
        pipe_fds.push(w.as_raw_fd());
        let (o, v) = outcome(std::panic::catch_unwind(std::panic::AssertUnwindSafe(|| {
            SignalDelivery::with_pipe(r, w, E::default(), init.iter())
        })));
        (o, v.map(Inst::Deliv))
    } else {
        let (o, v) = outcome(std::panic::catch_unwind(std::panic::AssertUnwindSafe(|| SignalsInfo::<E>::new(init.iter()))));
        (o, v.map(Inst::Info))
    };
    emit(fd, &json!({"k": "new", "out": o, "panic": crate::vsched::take_last_panic(), "fds": open_fd_count() - base_fds, "pipe_open": pipe_fds.iter().filter(|f| fd_valid(**f)).count()}));
    let mut inst: Option<Inst<E>> = inst;
    let mut handles: Vec<Handle> = Vec::new();
    // which signals may be raised safely (taken over by the library): witnesses cover SAFE
    let mut raisable: BTreeSet<c_int> = SAFE.iter().cloned().collect();
    let mut watched: BTreeSet<c_int> = BTreeSet::new();
    if inst.is_some() {
        for s in &case.init {
            watched.insert(*s);
            raisable.insert(*s);
        }
    }
    let probe = |inst: &mut Option<Inst<E>>, watched: &BTreeSet<c_int>, raisable: &BTreeSet<c_int>, fd: i32, step: i64| {
        // raise every watched signal once (and every SAFE one, to see the witnesses)
        let mut raised: Vec<c_int> = Vec::new();
        let w0: Vec<usize> = WITNESS.iter().map(|w| w.load(Ordering::SeqCst)).collect();
        for s in raisable.iter() {
            if watched.contains(s) || SAFE.contains(s) {
                unsafe { libc::raise(*s) };
                raised.push(*s);
            }
        }
        let w1: Vec<usize> = WITNESS.iter().map(|w| w.load(Ordering::SeqCst)).collect();
        let delta: Vec<usize> = w0.iter().zip(&w1).map(|(a, b)| b - a).collect();
        let got = match inst.as_mut() {
            Some(i) => {
                let r = std::panic::catch_unwind(std::panic::AssertUnwindSafe(|| i.pending()));
                match r {
                    Ok(v) => json!(v),
                    Err(_) => json!("panic"),
                }
            }
            None => json!(null),
        };
        emit(fd, &json!({"k": "probe", "step": step, "raised": raised, "witness": delta, "got": got}));
    };
    probe(&mut inst, &watched, &raisable, fd, -1);
    for (i, op) in case.ops.iter().enumerate() {
        let mut out: String = "-".into();
        match op {
            Op::Add(n) | Op::AddViaHandle(n) => {
                let h: Option<Handle> = match op {
                    Op::Add(_) => inst.as_ref().map(|x| x.handle()),
                    _ => handles.last().cloned(),
                };
                if let Some(h) = h {
                    let via_instance = matches!(op, Op::Add(_));
                    let (o, _) = outcome(std::panic::catch_unwind(std::panic::AssertUnwindSafe(|| if via_instance { inst.as_ref().unwrap().add_signal(*n) } else { h.add_signal(*n) })));
                    out = o.into();
                    if o == "ok" {
                        watched.insert(*n);
                        raisable.insert(*n);
                    }
                } else {
                    out = "skipped".into();
                }
            }
            Op::CloneHandle => {
                if let Some(x) = inst.as_ref() {
                    handles.push(x.handle());
                } else if let Some(h) = handles.last().cloned() {
                    handles.push(h);
                }
            }
            Op::DropHandle => {
                if let Some(h) = handles.pop() {
                    let r = std::panic::catch_unwind(std::panic::AssertUnwindSafe(move || drop(h)));
                    out = if r.is_ok() { "ok".into() } else { "panic".into() };
                }
            }
            Op::DropInstance => {
                if let Some(x) = inst.take() {
                    let r = std::panic::catch_unwind(std::panic::AssertUnwindSafe(move || drop(x)));
                    out = if r.is_ok() { "ok".into() } else { "panic".into() };
                }
            }
            Op::Probe => {}
        }
        emit(fd, &json!({"k": "op", "step": i, "out": out, "panic": crate::vsched::take_last_panic()}));
        probe(&mut inst, &watched, &raisable, fd, i as i64);
    }
    // tear down everything
    let r1 = std::panic::catch_unwind(std::panic::AssertUnwindSafe(move || drop(inst)));
    let r2 = std::panic::catch_unwind(std::panic::AssertUnwindSafe(move || drop(handles)));
    let fds_left = open_fd_count() as i64 - base_fds as i64;
    let pipe_open = pipe_fds.iter().filter(|f| fd_valid(**f)).count();
    // the harness's own registrations still fire, once each
    let w0: Vec<usize> = WITNESS.iter().map(|w| w.load(Ordering::SeqCst)).collect();
    for s in SAFE.iter() {
        unsafe { libc::raise(*s) };
    }
    let w1: Vec<usize> = WITNESS.iter().map(|w| w.load(Ordering::SeqCst)).collect();
    let delta: Vec<usize> = w0.iter().zip(&w1).map(|(a, b)| b - a).collect();
    emit(fd, &json!({"k": "end", "drop_ok": r1.is_ok() && r2.is_ok(), "fds_left": fds_left, "pipe_open": pipe_open, "witness": delta, "panic": crate::vsched::take_last_panic()}));
    emit(fd, &json!({"k": "done"}));
}

pub fn run_case(case: &C12Case) -> CaseReport {
    let c2 = case.clone();
    let (recs, end) = fork_stream(20_000, move |fd| match c2.exf % 3 {
        0 => child::<SignalOnly>(&c2, fd),
        1 => child::<WithRawSiginfo>(&c2, fd),
        _ => child::<WithOrigin>(&c2, fd),
    });
    let mut rep = CaseReport::default();
    rep.hash = hash_of(&format!("{:?}", case));
    rep.sample = Some(json!({"case": case, "records": recs, "end": format!("{:?}", end)}));
    let exfname = ["SignalOnly", "WithRawSiginfo", "WithOrigin"][case.exf as usize % 3];
    rep.class(exfname);
    match &end {
        End::Timeout => {
            rep.inconclusive = Some("child timed out".into());
            return rep;
        }
        End::Infra(e) => {
            rep.inconclusive = Some(e.clone());
            return rep;
        }
        End::Signaled(s) => {
            let last = recs.last().cloned().unwrap_or(Value::Null);
            rep.viol("C12/abort", format!("the process was killed by signal {} (last record: {})", s, last));
            rep.nontrivial = true;
            return rep;
        }
        End::Exited(c) if *c != 0 || !recs.iter().any(|r| r["k"] == "done") => {
            rep.viol("C12/abort", format!("the process exited with {} before the history finished", c));
            return rep;
        }
        _ => {}
    }
    // ---- model
    // constructor
    let init_exp: Vec<Exp> = case.init.iter().map(|n| exp_add(*n)).collect();
    let ctor_exp = if init_exp.iter().any(|e| *e != Exp::Ok) {
        // the first non-Ok decides
        *init_exp.iter().find(|e| **e != Exp::Ok).unwrap()
    } else {
        Exp::Ok
    };
    let newrec = recs.iter().find(|r| r["k"] == "new").unwrap();
    let ctor_got = match newrec["out"].as_str().unwrap_or("") {
        "ok" => Exp::Ok,
        "err" => Exp::Err,
        _ => Exp::Panic,
    };
    if ctor_got != ctor_exp {
        rep.viol("C12/ctor-outcome", format!("constructor over {:?} -> {:?}, expected {:?} ({})", case.init, ctor_got, ctor_exp, newrec["panic"]));
        return rep;
    }
    let mut alive = ctor_got == Exp::Ok;
    let mut watched: BTreeSet<i32> = if alive { case.init.iter().cloned().collect() } else { BTreeSet::new() };
    let mut nhandles = 0usize;
    let mut rejected_then_more = false;
    let mut had_reject = false;
    if !alive {
        rep.class("failed-constructor");
        // nothing may be left: the socket pair must be closed
        if newrec["fds"].as_i64().unwrap_or(0) != 0 || newrec["pipe_open"].as_u64().unwrap_or(0) != 0 {
            rep.viol("C12/leak", format!("failed constructor left descriptors open (extra fds {}, handed pipe ends open {}): some registration still holds the write end", newrec["fds"], newrec["pipe_open"]));
        }
    }
    let check_probe = |rep: &mut CaseReport, step: i64, alive: bool, watched: &BTreeSet<i32>| {
        if let Some(p) = recs.iter().find(|r| r["k"] == "probe" && r["step"] == step) {
            let raised: Vec<i64> = p["raised"].as_array().map(|a| a.iter().filter_map(|x| x.as_i64()).collect()).unwrap_or_default();
            // witnesses fire exactly once per raise
            let wit: Vec<u64> = p["witness"].as_array().map(|a| a.iter().filter_map(|x| x.as_u64()).collect()).unwrap_or_default();
            for (i, s) in SAFE.iter().enumerate() {
                let want = raised.iter().filter(|r| **r == *s as i64).count() as u64;
                if wit.get(i).cloned().unwrap_or(0) != want {
                    rep.viol("C12/foreign-registration-disturbed", format!("step {}: the harness's own action on signal {} fired {} times for {} raise(s)", step, s, wit.get(i).cloned().unwrap_or(0), want));
                }
            }
            if alive {
                if p["got"] == "panic" {
                    rep.viol("C12/lost-watch", format!("step {}: pending() panicked", step));
                    return;
                }
                let got: Vec<i64> = p["got"].as_array().map(|a| a.iter().filter_map(|x| x.as_i64()).collect()).unwrap_or_default();
                for s in watched {
                    let n = got.iter().filter(|g| **g == *s as i64).count();
                    if n == 0 {
                        rep.viol("C12/lost-watch", format!("step {}: watched signal {} was raised but pending() did not yield it (got {:?})", step, s, got));
                    } else if n > 1 {
                        rep.viol("C12/double-registration", format!("step {}: one raise of watched signal {} yielded {} records", step, s, n));
                    }
                }
                for g in &got {
                    if !watched.contains(&(*g as i32)) {
                        rep.viol("C12/unwatched-yield", format!("step {}: pending() yielded {} which is not watched", step, g));
                    }
                }
            }
        }
    };
    check_probe(&mut rep, -1, alive, &watched);
    for (i, op) in case.ops.iter().enumerate() {
        let r = match recs.iter().find(|r| r["k"] == "op" && r["step"] == i as i64) {
            Some(r) => r,
            None => break,
        };
        let out = r["out"].as_str().unwrap_or("");
        if had_reject {
            rejected_then_more = true;
        }
        match op {
            Op::Add(n) | Op::AddViaHandle(n) => {
                let has_target = match op {
                    Op::Add(_) => alive,
                    _ => nhandles > 0,
                };
                if !has_target {
                    if out != "skipped" {
                        rep.inconclusive = Some("model/child disagree on available handles".into());
                        return rep;
                    }
                } else {
                    // re-adding a watched signal is a no-op; in-range numbers are looked up first
                    let exp = if watched.contains(n) { Exp::Ok } else { exp_add(*n) };
                    let got = match out {
                        "ok" => Exp::Ok,
                        "err" => Exp::Err,
                        _ => Exp::Panic,
                    };
                    if got != exp {
                        let pm = r["panic"].as_str().unwrap_or("").to_string();
                        let key = if pm.contains("Init called multiple times") {
                            "C12/raw-init-twice"
                        } else if pm.contains("PoisonError") {
                            "C12/poison-after-rejected-add"
                        } else {
                            "C12/add-outcome"
                        };
                        rep.viol(key, format!("step {}: add_signal({}) -> {:?}, expected {:?} ({})", i, n, got, exp, pm));
                    }
                    if got == Exp::Ok {
                        watched.insert(*n);
                    } else {
                        had_reject = true;
                    }
                }
            }
            Op::CloneHandle => {
                if alive || nhandles > 0 {
                    nhandles += 1;
                }
            }
            Op::DropHandle => {
                if nhandles > 0 {
                    nhandles -= 1;
                    if out == "panic" {
                        rep.viol("C12/drop-panic", format!("step {}: dropping a handle panicked ({})", i, r["panic"]));
                    }
                }
            }
            Op::DropInstance => {
                if alive {
                    alive = false;
                    if out == "panic" {
                        rep.viol("C12/drop-panic", format!("step {}: dropping the instance panicked ({})", i, r["panic"]));
                    }
                }
            }
            Op::Probe => {}
        }
        check_probe(&mut rep, i as i64, alive, &watched);
    }
    if let Some(e) = recs.iter().find(|r| r["k"] == "end") {
        if e["drop_ok"] != true {
            rep.viol("C12/drop-panic", format!("final drop panicked ({})", e["panic"]));
        }
        if e["fds_left"].as_i64().unwrap_or(0) != 0 || e["pipe_open"].as_u64().unwrap_or(0) != 0 {
            rep.viol("C12/leak", format!("after the instance and all handles are gone {} extra descriptors are open (handed pipe ends open: {}): a registration was not removed", e["fds_left"], e["pipe_open"]));
        }
        let wit: Vec<u64> = e["witness"].as_array().map(|a| a.iter().filter_map(|x| x.as_u64()).collect()).unwrap_or_default();
        if wit.iter().any(|w| *w != 1) || wit.len() != SAFE.len() {
            rep.viol("C12/foreign-registration-disturbed", format!("after teardown the harness's own actions fired {:?} (expected once each)", wit));
        }
    }
    if had_reject {
        rep.class("rejected-add");
    }
    rep.nontrivial = rejected_then_more || (!case.init.is_empty() && ctor_exp != Exp::Ok);
    rep
}

/// The sequential forkprobe, plus iterator scenarios under the schedule-owning executor in which
/// deliveries keep arriving (on other threads) while the last owner lets go: the clean-up clause
/// must also hold when the teardown races a delivery.
#[derive(Clone, Debug, Serialize, Deserialize)]
pub enum C12Any {
    Probe(C12Case),
    Teardown(crate::iter::IterCase),
}

fn run_any(c: &C12Any) -> CaseReport {
    match c {
        C12Any::Probe(c) => run_case(c),
        C12Any::Teardown(c) => {
            let mut r = crate::iter::run_case(c);
            r.classes.push("teardown-under-deliveries".into());
            r.nontrivial = !c.late.is_empty();
            r
        }
    }
}

/// Real threads: the last owners of an instance (the instance itself and handle clones) let go
/// at the same moment on different threads. Whoever is last must clean up - exactly once - no
/// matter how the drops interleave; afterwards the pipe the instance was given is closed and a
/// delivery reaches nothing of it.
fn concurrent_drop_child(rounds: u32, owners: u8, fd: i32) {
    use std::sync::atomic::AtomicU32;
    crate::vsched::install();
    ignore_sigpipe();
    static HITS: AtomicUsize = AtomicUsize::new(0);
    unsafe {
        signal_hook_registry::register(libc::SIGUSR1, || {
            HITS.fetch_add(1, Ordering::SeqCst);
        })
        .expect("witness");
    }
    let mut leaked_pipe = 0u32;
    let mut woken_after = 0u32;
    let mut panicked = 0u32;
    let mut first_bad: Option<u32> = None;
    for round in 0..rounds {
        let (r, w) = UnixStream::pair().expect("pair");
        let (rfd, wfd) = (r.as_raw_fd(), w.as_raw_fd());
        // a second reader on the same socket, to see bytes written after the owners are gone
        let spy = unsafe { libc::dup(rfd) };
        let inst = match SignalDelivery::with_pipe(r, w, SignalOnly::default(), &[libc::SIGUSR1]) {
            Ok(i) => i,
            Err(_) => break,
        };
        let mut parts: Vec<Box<dyn FnOnce() + Send>> = Vec::new();
        for _ in 1..owners.max(2) {
            let h = inst.handle();
            parts.push(Box::new(move || drop(h)));
        }
        parts.push(Box::new(move || drop(inst)));
        let go = Arc::new(AtomicU32::new(0));
        let n = parts.len() as u32;
        let mut ths = Vec::new();
        for p in parts {
            let go = go.clone();
            ths.push(std::thread::spawn(move || {
                go.fetch_add(1, Ordering::SeqCst);
                while go.load(Ordering::SeqCst) < n {
                    std::hint::spin_loop();
                }
                std::panic::catch_unwind(std::panic::AssertUnwindSafe(p)).is_ok()
            }));
        }
        for t in ths {
            if !t.join().unwrap_or(false) {
                panicked += 1;
            }
        }
        let mut bad = false;
        if fd_valid(wfd) || fd_valid(rfd) {
            leaked_pipe += 1;
            bad = true;
        }
        // a delivery now must not write into the (former) self-pipe
        unsafe { libc::raise(libc::SIGUSR1) };
        let mut b = [0u8; 8];
        let got = unsafe { libc::recv(spy, b.as_mut_ptr() as *mut _, 8, libc::MSG_DONTWAIT) };
        if got > 0 {
            woken_after += 1;
            bad = true;
        }
        unsafe { libc::close(spy) };
        if bad {
            if first_bad.is_none() {
                first_bad = Some(round);
            }
            // the leaked descriptors would shift the numbering of later rounds: stop here
            break;
        }
    }
    emit(fd, &json!({"k": "stress", "rounds": rounds, "leaked_pipe": leaked_pipe, "woken_after": woken_after, "panicked": panicked, "first_bad": first_bad, "witness": HITS.load(Ordering::SeqCst)}));
    emit(fd, &json!({"k": "done"}));
}

pub fn concurrent_drop_probe(rounds: u32, owners: u8) -> CaseReport {
    let (recs, end) = fork_stream(60_000, move |fd| concurrent_drop_child(rounds, owners, fd));
    let mut rep = CaseReport::default();
    rep.hash = hash_of(&("concurrent-drop", rounds, owners));
    rep.class("last-owners-dropped-concurrently");
    rep.nontrivial = true;
    rep.sample = Some(json!({"concurrent_drop": {"rounds": rounds, "owners": owners}, "records": recs, "end": format!("{:?}", end)}));
    match &end {
        End::Timeout => rep.inconclusive = Some("concurrent-drop stress timed out".into()),
        End::Infra(e) => rep.inconclusive = Some(e.clone()),
        End::Signaled(s) => rep.viol("C12/abort", format!("dropping the last owners of an instance on {} threads at once: the process was killed by signal {}", owners, s)),
        End::Exited(_) => match recs.iter().find(|r| r["k"] == "stress") {
            None => rep.viol("C12/abort", "the concurrent-drop stress did not finish".into()),
            Some(r) => {
                rep.count("concurrent_drop_rounds", r["rounds"].as_u64().unwrap_or(0));
                if r["panicked"].as_u64().unwrap_or(0) > 0 {
                    rep.viol("C12/drop-panic", format!("{} drops panicked when the last {} owners of an instance let go at the same time", r["panicked"], owners));
                }
                if r["leaked_pipe"].as_u64().unwrap_or(0) > 0 || r["woken_after"].as_u64().unwrap_or(0) > 0 {
                    rep.viol("C12/leak", format!("round {}: the instance and its {} handle clone(s) were dropped at the same moment on different threads; afterwards its pipe was still open ({}) / a delivery still wrote into it ({}): nobody removed its registrations", r["first_bad"], owners.max(2) - 1, r["leaked_pipe"], r["woken_after"]));
                }
            }
        },
    }
    rep
}

fn extra(def: &PropDef, args: &WorkerArgs, report: &mut WorkerReport) {
    let known = Known::load();
    let rounds = if args.tier == Tier::Thorough { 40_000 } else { 1500 };
    for owners in [2u8, 3] {
        let rep = concurrent_drop_probe(rounds, owners);
        if let Some(v) = report.absorb(def, &rep, &known) {
            report.violation = Some((v.key, v.msg, json!({"concurrent_drop": {"rounds": rounds, "owners": owners}})));
            return;
        }
    }
}

fn worker(def: &PropDef, args: &WorkerArgs) -> WorkerReport {
    let teardown = crate::iter::strategy(true).prop_map(|mut c| {
        if c.late.is_empty() {
            c.late = vec![c.polls % 3, (c.polls + 1) % 3];
        }
        C12Any::Teardown(c)
    });
    let s = prop_oneof![8 => strategy().prop_map(C12Any::Probe), 1 => teardown].boxed();
    generic_worker(def, args, s, &run_any)
}

fn replay(v: &Value) -> CaseReport {
    if let Some(c) = v.get("concurrent_drop") {
        return concurrent_drop_probe(c["rounds"].as_u64().unwrap_or(1500) as u32, c["owners"].as_u64().unwrap_or(2) as u8);
    }
    if let Ok(c) = serde_json::from_value::<C12Any>(v.clone()) {
        return run_any(&c);
    }
    let case: C12Case = serde_json::from_value(v.clone()).expect("case");
    run_case(&case)
}

pub static C12: PropDef = PropDef {
    id: "C12",
    prefixes: &["C12/"],
    rule: "(worker 0, every run: real-thread stress - the instance and 1-2 handle clones are dropped at the same moment on different threads, 1500 / 40 000 rounds; afterwards the pipe must be closed and a delivery must not write into it) (second family, 1 case in 9: iterator scenarios under the schedule-owning executor with deliveries arriving while the instance and its handles are dropped - the teardown must finish and nothing the instance registered may act afterwards) forkprobe: exfiltrator (3) x constructor (SignalsInfo::new | SignalDelivery::with_pipe on a harness socketpair) x initial list x <=12 ops over {add_signal(n) via instance / via handle clone, clone handle, drop handle, drop instance, probe}, n from the full c_int range weighted to boundaries and forbidden numbers; after every step every watched signal is raised for real and must come out of pending() exactly once while the harness's own witness actions fire exactly once. Oracle: instance model (watched set, handle count), expected outcome per number (panic / Err / Ok, same way on repetition), no abort, no panicking drop, descriptor count back to baseline after teardown. Non-trivial = a rejected add followed by further operations, or a failing constructor; distinct = the case value",
    assumptions: &[
        "a leaked registration is observed through the self-pipe write end it keeps open (descriptor count / handed-over fds), the registry offers no introspection",
        "signals are raised only once the library has taken them over",
    ],
    cases: (1500, 60_000),
    shrink_iters: 300,
    worker,
    replay,
    extra: Some(extra),
};
