//! Generic machinery shared by all property drivers: worker processes, proptest runner with a
//! fixed seed, evidence merging, replay files, known findings, exit codes.

use proptest::strategy::{BoxedStrategy, Strategy};
use proptest::test_runner::{Config, RngAlgorithm, TestCaseError, TestError, TestRng, TestRunner};
use serde::{de::DeserializeOwned, Deserialize, Serialize};
use serde_json::{json, Value};
use std::collections::{BTreeMap, BTreeSet};
use std::fmt::Debug;
use std::hash::{Hash, Hasher};
use std::io::Write;
use std::time::Instant;

pub const VERIF: &str = "/verif";

/// Where evidence, replays and per-run scratch go: /verif, unless a sensitivity sweep running
/// from a scratch copy redirects them (VERIF_OUT_DIR) so that it never touches the real files.
pub fn out_dir() -> String {
    match std::env::var("VERIF_OUT_DIR") {
        Ok(d) if !d.is_empty() => {
            for sub in ["evidence", "replays", "work"] {
                let _ = std::fs::create_dir_all(format!("{}/{}", d, sub));
            }
            d
        }
        _ => VERIF.to_string(),
    }
}

#[derive(Clone, Debug, Serialize, Deserialize, PartialEq, Eq)]
pub struct Viol {
    pub key: String,
    pub msg: String,
}

/// What running one case produced.
#[derive(Clone, Debug, Default, Serialize, Deserialize)]
pub struct CaseReport {
    pub violations: Vec<Viol>,
    pub nontrivial: bool,
    pub hash: u64,
    pub classes: Vec<String>,
    /// the run was cut short (abort, deadlock, step bound, child death): own oracles may not
    /// have seen a complete history
    #[serde(default)]
    pub aborted: bool,
    /// per-property non-triviality when one run serves several properties
    #[serde(default)]
    pub nontrivial_by: Vec<(String, bool)>,
    pub counters: Vec<(String, u64)>,
    /// infrastructure trouble (timeouts, fork failures): never a violation
    pub inconclusive: Option<String>,
    /// short human-readable rendering of the realised execution
    pub sample: Option<Value>,
}

#[derive(Clone, Copy, Debug, PartialEq, Eq)]
pub enum Tier {
    Quick,
    Thorough,
}

impl Tier {
    pub fn name(self) -> &'static str {
        match self {
            Tier::Quick => "quick",
            Tier::Thorough => "thorough",
        }
    }
}

/// One property's definition, type-erased.
pub struct PropDef {
    pub id: &'static str,
    /// key prefixes that count as violations of this property
    pub prefixes: &'static [&'static str],
    pub rule: &'static str,
    pub assumptions: &'static [&'static str],
    /// cases per worker (quick, thorough)
    pub cases: (u32, u32),
    pub shrink_iters: u32,
    /// run one worker: returns its report
    pub worker: fn(&PropDef, &WorkerArgs) -> WorkerReport,
    /// replay a case value: returns the violations and a rendering
    pub replay: fn(&Value) -> CaseReport,
    /// extra deterministic cases (e.g. exhaustive tables, anchors) run by worker 0 only
    pub extra: Option<fn(&PropDef, &WorkerArgs, &mut WorkerReport)>,
}

#[derive(Clone, Debug)]
pub struct WorkerArgs {
    pub tier: Tier,
    pub seed: u64,
    pub worker: u32,
    pub workers: u32,
    pub cases: u32,
}

#[derive(Clone, Debug, Default, Serialize, Deserialize)]
pub struct WorkerReport {
    pub evaluations: u64,
    pub nontrivial_hashes: BTreeSet<u64>,
    pub nontrivial_total: u64,
    pub classes: BTreeMap<String, u64>,
    pub counters: BTreeMap<String, u64>,
    pub samples: Vec<Value>,
    pub inconclusive: u64,
    pub inconclusive_notes: Vec<String>,
    pub foreign_violations: u64,
    pub known_matched: BTreeMap<String, u64>,
    /// (key, msg, shrunk case as JSON)
    pub violation: Option<(String, String, Value)>,
    pub exhaustive: bool,
    pub extra_evaluations: u64,
}

impl CaseReport {
    pub fn class(&mut self, c: &str) {
        if !self.classes.iter().any(|x| x == c) {
            self.classes.push(c.to_string());
        }
    }
    pub fn count(&mut self, k: &str, v: u64) {
        self.counters.push((k.to_string(), v));
    }
    pub fn viol(&mut self, key: &str, msg: String) {
        if !self.violations.iter().any(|v| v.key == key) {
            self.violations.push(Viol { key: key.to_string(), msg });
        }
    }
}

impl WorkerReport {
    pub fn absorb(&mut self, def: &PropDef, rep: &CaseReport, known: &Known) -> Option<Viol> {
        self.evaluations += 1;
        if let Some(n) = &rep.inconclusive {
            self.inconclusive += 1;
            if self.inconclusive_notes.len() < 5 {
                self.inconclusive_notes.push(n.clone());
            }
            return None;
        }
        if !rep.violations.is_empty() && sigq_exhausted() {
            // The kernel's per-user quota of queued signals (RLIMIT_SIGPENDING, shared by every
            // process of this user on the machine) is used up by someone else: real-time signals
            // are refused with EAGAIN and ordinary ones arrive without their siginfo. Whatever a
            // case built on real signals observed under that condition says nothing about the
            // library: no verdict.
            self.inconclusive += 1;
            if self.inconclusive_notes.len() < 5 {
                self.inconclusive_notes.push("per-user queued-signal quota (RLIMIT_SIGPENDING) exhausted by other processes: real signal deliveries unreliable, case not judged".into());
            }
            return None;
        }
        let mut own: Option<Viol> = None;
        let mut foreign = false;
        for v in &rep.violations {
            if def.prefixes.iter().any(|p| v.key.starts_with(p)) {
                if known.is_known(def.id, &v.key) {
                    *self.known_matched.entry(v.key.clone()).or_insert(0) += 1;
                } else if own.is_none() {
                    own = Some(v.clone());
                }
            } else {
                foreign = true;
            }
        }
        if foreign && own.is_none() && rep.aborted {
            self.foreign_violations += 1;
            return None;
        }
        let nt = rep
            .nontrivial_by
            .iter()
            .find(|(p, _)| p == def.id)
            .map(|(_, b)| *b)
            .unwrap_or(rep.nontrivial);
        if nt {
            self.nontrivial_total += 1;
            self.nontrivial_hashes.insert(rep.hash);
        }
        for c in &rep.classes {
            *self.classes.entry(c.clone()).or_insert(0) += 1;
        }
        for (k, v) in &rep.counters {
            *self.counters.entry(k.clone()).or_insert(0) += *v;
        }
        if let Some(s) = &rep.sample {
            if self.samples.len() < 3 && (nt || self.samples.is_empty()) {
                self.samples.push(s.clone());
            }
        }
        own
    }
}

/// true when fewer than 2000 queued signals are left to this user (see `absorb`)
pub fn sigq_exhausted() -> bool {
    if let Ok(st) = std::fs::read_to_string("/proc/self/status") {
        for l in st.lines() {
            if let Some(r) = l.strip_prefix("SigQ:") {
                let mut it = r.trim().split('/');
                let used: u64 = it.next().and_then(|x| x.trim().parse().ok()).unwrap_or(0);
                let lim: u64 = it.next().and_then(|x| x.trim().parse().ok()).unwrap_or(u64::MAX);
                return used + 2000 >= lim;
            }
        }
    }
    false
}

/// known_findings.json (committed; read-only at run time)
#[derive(Clone, Debug, Default)]
pub struct Known {
    pub entries: Vec<(String, String, String, String)>, // property, key, status, what
}

impl Known {
    pub fn load() -> Known {
        let mut k = Known::default();
        if let Ok(s) = std::fs::read_to_string(format!("{}/known_findings.json", VERIF)) {
            if let Ok(v) = serde_json::from_str::<Value>(&s) {
                if let Some(a) = v.get("findings").and_then(|x| x.as_array()) {
                    for e in a {
                        let g = |n: &str| e.get(n).and_then(|x| x.as_str()).unwrap_or("").to_string();
                        k.entries.push((g("property"), g("key"), g("status"), g("what")));
                    }
                }
            }
        }
        k
    }
    pub fn is_known(&self, prop: &str, key: &str) -> bool {
        self.entries
            .iter()
            .any(|(p, k, s, _)| p == prop && k == key && s == "known")
    }
    pub fn known_for(&self, prop: &str) -> Vec<(String, String)> {
        self.entries
            .iter()
            .filter(|(p, _, s, _)| p == prop && s == "known")
            .map(|(_, k, _, w)| (k.clone(), w.clone()))
            .collect()
    }
}

pub fn hash_of<T: Hash>(t: &T) -> u64 {
    let mut h = std::collections::hash_map::DefaultHasher::new();
    t.hash(&mut h);
    h.finish()
}

fn seed_bytes(seed: u64, worker: u32, salt: u64) -> [u8; 32] {
    let mut out = [0u8; 32];
    let mut x = seed
        .wrapping_mul(0x9E37_79B9_7F4A_7C15)
        .wrapping_add((worker as u64) << 32)
        .wrapping_add(salt)
        .wrapping_add(0x1234_5678_9ABC_DEF1);
    for chunk in out.chunks_mut(8) {
        // splitmix64
        x = x.wrapping_add(0x9E37_79B9_7F4A_7C15);
        let mut z = x;
        z = (z ^ (z >> 30)).wrapping_mul(0xBF58_476D_1CE4_E5B9);
        z = (z ^ (z >> 27)).wrapping_mul(0x94D0_49BB_1331_11EB);
        z ^= z >> 31;
        chunk.copy_from_slice(&z.to_le_bytes());
    }
    out
}

/// The generic generated-search loop of one worker: proptest runner with a fixed seed, shrinking
/// on failure.
pub fn generic_worker<C>(
    def: &PropDef,
    args: &WorkerArgs,
    strategy: BoxedStrategy<C>,
    run_case: &dyn Fn(&C) -> CaseReport,
) -> WorkerReport
where
    C: Debug + Clone + Serialize + DeserializeOwned + 'static,
{
    let known = Known::load();
    let mut report = WorkerReport::default();
    // regression replays first (worker 0 only)
    let lead = args.worker == 0 || std::env::var("VERIF_PLAIN_LEAD").is_ok();
    if lead {
        let dir = format!("{}/replays/regress/{}", VERIF, def.id);
        if let Ok(rd) = std::fs::read_dir(&dir) {
            let mut files: Vec<_> = rd.filter_map(|e| e.ok()).map(|e| e.path()).collect();
            files.sort();
            for f in files {
                if f.extension().map_or(true, |e| e != "json") {
                    continue;
                }
                let v: Value = match std::fs::read_to_string(&f).ok().and_then(|s| serde_json::from_str(&s).ok()) {
                    Some(v) => v,
                    None => continue,
                };
                let case: C = match serde_json::from_value(v.get("case").cloned().unwrap_or(Value::Null)) {
                    Ok(c) => c,
                    Err(_) => continue,
                };
                let rep = run_case(&case);
                *report.counters.entry("regress_replayed".into()).or_insert(0) += 1;
                if let Some(v) = report.absorb(def, &rep, &known) {
                    report.violation = Some((v.key, v.msg, serde_json::to_value(&case).unwrap()));
                    return report;
                }
            }
        }
    }
    if let Some(extra) = def.extra {
        if lead {
            extra(def, args, &mut report);
            if report.violation.is_some() {
                return report;
            }
        }
    }
    let cfg = Config {
        cases: args.cases,
        failure_persistence: None,
        max_shrink_iters: def.shrink_iters,
        // shrinking is bounded in time as well: some failing cases cost seconds (watchdogs)
        max_shrink_time: 90_000,
        max_global_rejects: 1_000_000,
        ..Config::default()
    };
    let rng = TestRng::from_seed(RngAlgorithm::ChaCha, &seed_bytes(args.seed, args.worker, 0));
    let mut runner = TestRunner::new_with_rng(cfg, rng);
    let failed = std::cell::Cell::new(false);
    let first_failure: std::cell::RefCell<Option<Value>> = std::cell::RefCell::new(None);
    let rep_cell = std::cell::RefCell::new(&mut report);
    let result = runner.run(&strategy, |case| {
        let rep = run_case(&case);
        if failed.get() {
            // shrinking phase: only the verdict matters, do not count
            let bad = rep.inconclusive.is_none()
                && rep.violations.iter().any(|v| {
                    def.prefixes.iter().any(|p| v.key.starts_with(p)) && !known.is_known(def.id, &v.key)
                });
            return if bad {
                Err(TestCaseError::fail("violation"))
            } else {
                Ok(())
            };
        }
        let mut r = rep_cell.borrow_mut();
        match r.absorb(def, &rep, &known) {
            Some(v) => {
                failed.set(true);
                *first_failure.borrow_mut() = Some(json!({"key": v.key, "msg": v.msg, "case": serde_json::to_value(&case).ok(), "trace": rep.sample}));
                Err(TestCaseError::fail(v.key))
            }
            None => Ok(()),
        }
    });
    drop(rep_cell);
    if let Err(e) = result {
        match e {
            TestError::Fail(reason, case) => {
                if std::env::var_os("VERIF_DEBUG").is_some() {
                    eprintln!("worker {}: original failure reason: {}", args.worker, reason);
                }
                // re-run the minimal case to obtain its verdict; families that run real runtimes
                // under real time (adapters, bursts) may need several attempts
                let find = |rep: &CaseReport| rep.violations.iter().find(|v| def.prefixes.iter().any(|p| v.key.starts_with(p)) && !known.is_known(def.id, &v.key)).cloned();
                let mut case = case;
                let mut rep = run_case(&case);
                let mut found = find(&rep);
                for _ in 0..4 {
                    if found.is_some() {
                        break;
                    }
                    rep = run_case(&case);
                    found = find(&rep);
                }
                if found.is_none() {
                    // fall back to the case that failed first (unshrunk)
                    let ff = first_failure.borrow().clone();
                    if let Some(orig) = ff.as_ref().and_then(|f| f.get("case")).and_then(|c| serde_json::from_value::<C>(c.clone()).ok()) {
                        for _ in 0..5 {
                            let r2 = run_case(&orig);
                            if let Some(v) = find(&r2) {
                                found = Some(v);
                                rep = r2;
                                case = orig;
                                break;
                            }
                        }
                    }
                }
                let v = found.unwrap_or_else(|| {
                    // observed once on the real code, not reproduced in ten further attempts
                    let ff = first_failure.borrow();
                    let k = ff.as_ref().and_then(|f| f["key"].as_str().map(|s| s.to_string()));
                    let m = ff.as_ref().and_then(|f| f["msg"].as_str().map(|s| s.to_string())).unwrap_or_default();
                    Viol { key: k.unwrap_or_else(|| format!("{}/unstable", def.id)), msg: format!("{} [observed in the search, not reproduced in 10 re-runs of the shrunk and the original case: timing-dependent]", m) }
                });
                let mut cj = serde_json::to_value(&case).unwrap();
                if v.key.ends_with("/unstable") {
                    if let (Some(o), Some(ff)) = (cj.as_object_mut(), first_failure.borrow_mut().take()) {
                        o.insert("_first_failure".into(), ff);
                    }
                }
                if let Some(s) = rep.sample {
                    if let Some(o) = cj.as_object_mut() {
                        o.insert("_trace".into(), s);
                    }
                }
                report.violation = Some((v.key, v.msg, cj));
            }
            TestError::Abort(r) => {
                report.inconclusive += 1;
                report.inconclusive_notes.push(format!("proptest abort: {}", r));
            }
        }
    }
    report
}

pub fn write_json(path: &str, v: &Value) {
    if let Some(p) = std::path::Path::new(path).parent() {
        let _ = std::fs::create_dir_all(p);
    }
    let mut f = std::fs::File::create(path).expect("create json");
    f.write_all(serde_json::to_string_pretty(v).unwrap().as_bytes()).unwrap();
    f.write_all(b"\n").unwrap();
}

/// Entry: `check <ID> <tier>`: spawn workers, merge, write evidence, print verdict.
pub fn check_main(def: &PropDef, tier: Tier) -> i32 {
    let t0 = Instant::now();
    let seed: u64 = std::env::var("VERIF_SEED").ok().and_then(|s| s.parse().ok()).unwrap_or(0);
    let workers: u32 = std::env::var("VERIF_WORKERS").ok().and_then(|s| s.parse().ok()).unwrap_or(16);
    let cases = match tier {
        Tier::Quick => def.cases.0,
        Tier::Thorough => def.cases.1,
    };
    let cases: u32 = std::env::var("VERIF_CASES").ok().and_then(|s| s.parse().ok()).unwrap_or(cases);
    let work = format!("{}/work/{}-{}-{}", out_dir(), def.id, tier.name(), std::process::id());
    let _ = std::fs::create_dir_all(&work);
    let exe = std::env::current_exe().expect("exe");
    let mut children = Vec::new();
    for w in 0..workers {
        let out = format!("{}/w{}.json", work, w);
        let child = std::process::Command::new(&exe)
            .args([
                "worker",
                def.id,
                tier.name(),
                &seed.to_string(),
                &w.to_string(),
                &workers.to_string(),
                &cases.to_string(),
                &out,
            ])
            .stdin(std::process::Stdio::null())
            .spawn();
        match child {
            Ok(c) => children.push((w, c, out)),
            Err(e) => {
                eprintln!("cannot spawn worker: {}", e);
                return 2;
            }
        }
    }
    // one more worker on the build users ship (profile `plain`: no debug assertions, no overflow
    // checks), if the check script built it: it repeats worker 0's fixed work (regression
    // replays, enumerated tables, anchors, stresses) and runs generated cases of its own
    let plain_exe = exe.parent().and_then(|d| d.parent()).map(|d| d.join("plain").join("sigverif"));
    let mut plain_workers = 0u32;
    if let Some(pe) = plain_exe.filter(|p| p.exists() && std::env::var("VERIF_NO_PLAIN").is_err()) {
        let w = workers;
        let out = format!("{}/w{}.json", work, w);
        let child = std::process::Command::new(&pe)
            .args(["worker", def.id, tier.name(), &seed.to_string(), &w.to_string(), &(workers + 1).to_string(), &cases.to_string(), &out])
            .env("VERIF_PLAIN_LEAD", "1")
            .stdin(std::process::Stdio::null())
            .spawn();
        match child {
            Ok(c) => {
                children.push((w, c, out));
                plain_workers = 1;
            }
            Err(e) => {
                eprintln!("cannot spawn the plain-profile worker: {}", e);
                return 2;
            }
        }
    }
    let mut merged = WorkerReport::default();
    let mut infra_fail: Vec<String> = Vec::new();
    let mut first_violation: Option<(u32, String, String, Value)> = None;
    for (w, mut c, out) in children {
        let st = c.wait();
        let ok = matches!(&st, Ok(s) if s.success());
        let rep: Option<WorkerReport> = std::fs::read_to_string(&out).ok().and_then(|s| serde_json::from_str(&s).ok());
        match rep {
            Some(r) if ok => {
                merged.evaluations += r.evaluations + r.extra_evaluations;
                merged.nontrivial_total += r.nontrivial_total;
                merged.nontrivial_hashes.extend(r.nontrivial_hashes.iter().cloned());
                for (k, v) in r.classes {
                    *merged.classes.entry(k).or_insert(0) += v;
                }
                for (k, v) in r.counters {
                    *merged.counters.entry(k).or_insert(0) += v;
                }
                for (k, v) in r.known_matched {
                    *merged.known_matched.entry(k).or_insert(0) += v;
                }
                if merged.samples.len() < 5 {
                    merged.samples.extend(r.samples.into_iter().take(2));
                }
                merged.inconclusive += r.inconclusive;
                merged.inconclusive_notes.extend(r.inconclusive_notes);
                merged.foreign_violations += r.foreign_violations;
                merged.exhaustive |= r.exhaustive;
                if let Some((k, m, c)) = r.violation {
                    if first_violation.is_none() {
                        first_violation = Some((w, k, m, c));
                    }
                }
            }
            _ => infra_fail.push(format!("worker {} failed: {:?}", w, st)),
        }
    }
    let _ = std::fs::remove_dir_all(&work);
    let wall = t0.elapsed().as_secs_f64();
    let known = Known::load();
    let distinct = merged.nontrivial_hashes.len() as u64;
    let frac = if merged.evaluations > 0 {
        merged.nontrivial_total as f64 / merged.evaluations as f64
    } else {
        0.0
    };
    let mut samples = merged.samples.clone();
    samples.truncate(5);
    if samples.is_empty() {
        samples.push(json!("no sample recorded"));
    }
    let evidence = json!({
        "property_id": def.id,
        "tier": tier.name(),
        "seed": seed,
        "level": "exploration",
        "coverage": {
            "evaluations": merged.evaluations,
            "distinct_nontrivial": distinct,
            "rule": def.rule,
            "samples": samples,
            "exhaustive": merged.exhaustive,
            "workers": workers,
            "workers_on_the_build_without_debug_assertions_and_overflow_checks": plain_workers,
            "cases_per_worker": cases,
            "nontrivial_total": merged.nontrivial_total,
            "nontrivial_fraction": frac,
            "classes": merged.classes,
            "counters": merged.counters,
            "inconclusive": merged.inconclusive,
            "inconclusive_notes": merged.inconclusive_notes.iter().take(5).collect::<Vec<_>>(),
            "cases_discarded_for_other_properties_violations": merged.foreign_violations,
            "known_findings_matched": merged.known_matched,
        },
        "assumptions": def.assumptions,
        "wall_s": wall,
        "violations": if first_violation.is_some() { 1 } else { 0 },
    });
    write_json(&format!("{}/evidence/{}.json", out_dir(), def.id), &evidence);
    println!(
        "{} {}: evaluations={} distinct_nontrivial={} nontrivial_fraction={:.2} inconclusive={} wall={:.1}s",
        def.id, tier.name(), merged.evaluations, distinct, frac, merged.inconclusive, wall
    );
    for (k, w) in known.known_for(def.id) {
        println!("KNOWN-FINDING: property={} {} ({}; matched {} times in this run)", def.id, k, w,
            merged.known_matched.get(&k).cloned().unwrap_or(0));
    }
    if let Some((w, key, msg, case)) = first_violation {
        let path = format!("{}/replays/{}-seed{}-w{}.json", out_dir(), def.id, seed, w);
        write_json(
            &path,
            &json!({"property": def.id, "seed": seed, "worker": w, "tier": tier.name(), "key": key, "msg": msg, "case": case,
                "build": if plain_workers > 0 && w == workers { "profile plain (no debug assertions, no overflow checks)" } else { "profile release of the harness (debug assertions and overflow checks on)" }}),
        );
        println!("violation key={} msg={}", key, msg);
        println!("VIOLATION property={} replay={}", def.id, path);
        return 1;
    }
    if !infra_fail.is_empty() {
        for f in infra_fail {
            eprintln!("{}", f);
        }
        return 2;
    }
    if merged.evaluations == 0 {
        eprintln!("no evaluations");
        return 2;
    }
    if merged.inconclusive * 5 > merged.evaluations {
        eprintln!("too many inconclusive cases ({} of {})", merged.inconclusive, merged.evaluations);
        return 2;
    }
    if distinct < 2 {
        eprintln!("vacuous run: fewer than 2 distinct non-trivial cases");
        return 2;
    }
    0
}

pub fn worker_main(def: &PropDef, a: &[String]) -> i32 {
    // worker <ID> <tier> <seed> <w> <workers> <cases> <out>
    let tier = if a[1] == "thorough" { Tier::Thorough } else { Tier::Quick };
    let args = WorkerArgs {
        tier,
        seed: a[2].parse().unwrap(),
        worker: a[3].parse().unwrap(),
        workers: a[4].parse().unwrap(),
        cases: a[5].parse().unwrap(),
    };
    let rep = (def.worker)(def, &args);
    write_json(&a[6], &serde_json::to_value(&rep).unwrap());
    0
}

pub fn replay_main(def: &PropDef, path: &str) -> i32 {
    let s = match std::fs::read_to_string(path) {
        Ok(s) => s,
        Err(e) => {
            eprintln!("cannot read {}: {}", path, e);
            return 2;
        }
    };
    let v: Value = serde_json::from_str(&s).expect("replay json");
    let mut case = v.get("case").cloned().unwrap_or(Value::Null);
    // annotations the driver added next to the case's own fields (an externally tagged enum must
    // be a single-key object to decode)
    if let Some(o) = case.as_object_mut() {
        o.retain(|k, _| !k.starts_with('_'));
    }
    let rep = (def.replay)(&case);
    if let Some(s) = &rep.sample {
        println!("{}", serde_json::to_string_pretty(s).unwrap());
    }
    if let Some(i) = &rep.inconclusive {
        println!("inconclusive: {}", i);
        return 2;
    }
    let known = Known::load();
    let mut bad = false;
    for viol in &rep.violations {
        println!("violation key={} msg={}", viol.key, viol.msg);
        if def.prefixes.iter().any(|p| viol.key.starts_with(p)) && !known.is_known(def.id, &viol.key) {
            bad = true;
        }
    }
    if bad {
        println!("VIOLATION property={} replay={}", def.id, path);
        1
    } else {
        println!("no violation of {} on this case", def.id);
        0
    }
}

/// Helper for properties: map a schedule-style selector to a strategy of schedule bytes.
pub fn schedule_strategy(max_len: usize) -> BoxedStrategy<Vec<u8>> {
    use proptest::collection::vec;
    use proptest::prelude::*;
    prop_oneof![
        // few preemptions: k non-zero bytes at random positions
        3 => (vec((0usize..max_len, 1u8..=255u8), 1..5)).prop_map(move |ps| {
            let mut v = vec![0u8; max_len];
            for (p, b) in ps { v[p] = b; }
            v
        }),
        // random walk
        2 => vec(any::<u8>(), max_len / 2..max_len),
        // sparse: 5-12 switches
        2 => (vec((0usize..max_len, 1u8..=255u8), 5..13)).prop_map(move |ps| {
            let mut v = vec![0u8; max_len];
            for (p, b) in ps { v[p] = b; }
            v
        }),
        // biased walk: mostly zero, some random
        2 => vec(prop_oneof![3 => Just(0u8), 1 => any::<u8>()], max_len / 2..max_len),
    ]
    .boxed()
}
