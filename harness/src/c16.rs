//! C16 — default-action emulation matches what the kernel would have done (forkprobe differential).

use crate::driver::*;
use crate::forkrun::{dispositions, emit, normalise_signals};
use libc::c_int;
use proptest::collection::vec;
use proptest::prelude::*;
use serde::{Deserialize, Serialize};
use serde_json::{json, Value};
use std::cell::RefCell;
use std::collections::HashMap;
use std::sync::atomic::AtomicBool;
use std::sync::Arc;

#[derive(Clone, Debug, Serialize, Deserialize)]
pub struct C16Case {
    pub n: i32,
    /// 0 normal context, 1 inside the signal's own action, 2 signal blocked, 3 explicitly unblocked,
    /// 4 called on a second thread while the main thread idles with the signal unblocked,
    /// 5 inside the signal's own action running on a second thread (thread-directed delivery)
    /// while the main thread idles with the signal unblocked,
    /// 6 from normal context while another thread keeps registering and unregistering an action
    /// for the same signal (which had been taken over and emptied before)
    pub ctx: u8,
    pub block_others: Vec<i32>,
    pub pre_ignore: bool,
    /// the other blocked signals are also made pending (raised while blocked) before the call
    #[serde(default)]
    pub pend_others: bool,
}

#[derive(Clone, Debug, PartialEq, Serialize, Deserialize)]
pub enum Obs {
    Term(i32),
    Stopped(i32),
    Continues,
    Exit(i32),
    Timeout,
    Infra(String),
}

/// Run `f` in a forked child that is alone in a fresh, non-orphaned process group.
fn probe(f: impl FnOnce(i32)) -> (Vec<Value>, Obs) {
    let mut fds = [0i32; 2];
    if unsafe { libc::pipe(fds.as_mut_ptr()) } != 0 {
        return (vec![], Obs::Infra("pipe".into()));
    }
    let pid = unsafe { libc::fork() };
    if pid < 0 {
        return (vec![], Obs::Infra("fork".into()));
    }
    if pid == 0 {
        unsafe {
            libc::close(fds[0]);
            // own process group; the parent (another group, same session) stays alive, so the
            // group is not orphaned and terminal stop signals keep their default action
            libc::setpgid(0, 0);
        }
        normalise_signals();
        f(fds[1]);
        unsafe { libc::_exit(0) };
    }
    unsafe {
        libc::close(fds[1]);
        libc::setpgid(pid, pid);
    }
    let start = std::time::Instant::now();
    let mut st: c_int = 0;
    let obs;
    loop {
        let r = unsafe { libc::waitpid(pid, &mut st, libc::WNOHANG | libc::WUNTRACED) };
        if r == pid {
            if libc::WIFSTOPPED(st) {
                let s = libc::WSTOPSIG(st);
                unsafe {
                    libc::kill(pid, libc::SIGKILL);
                    libc::waitpid(pid, &mut st, 0);
                }
                obs = Obs::Stopped(s);
            } else if libc::WIFSIGNALED(st) {
                obs = Obs::Term(libc::WTERMSIG(st));
            } else {
                obs = Obs::Exit(libc::WEXITSTATUS(st));
            }
            break;
        }
        if start.elapsed().as_millis() > 5000 {
            unsafe {
                libc::kill(pid, libc::SIGKILL);
                libc::waitpid(pid, &mut st, 0);
            }
            obs = Obs::Timeout;
            break;
        }
        std::thread::sleep(std::time::Duration::from_micros(50));
    }
    // read what was written
    let mut buf = Vec::new();
    let mut tmp = [0u8; 4096];
    loop {
        let n = unsafe { libc::read(fds[0], tmp.as_mut_ptr() as *mut _, tmp.len()) };
        if n <= 0 {
            break;
        }
        buf.extend_from_slice(&tmp[..n as usize]);
    }
    unsafe { libc::close(fds[0]) };
    let text = String::from_utf8_lossy(&buf);
    let recs: Vec<Value> = text.lines().filter_map(|l| serde_json::from_str(l).ok()).collect();
    let obs = match obs {
        Obs::Exit(0) if recs.iter().any(|r| r["k"] == "alive") => Obs::Continues,
        o => o,
    };
    (recs, obs)
}

fn set_disposition(n: c_int, h: usize) {
    unsafe {
        let mut sa: libc::sigaction = std::mem::zeroed();
        sa.sa_sigaction = h;
        libc::sigaction(n, &sa, std::ptr::null_mut());
    }
}

fn mask(how: c_int, sigs: &[i32]) {
    unsafe {
        let mut set: libc::sigset_t = std::mem::zeroed();
        libc::sigemptyset(&mut set);
        for s in sigs {
            if (1..=64).contains(s) {
                libc::sigaddset(&mut set, *s);
            }
        }
        libc::sigprocmask(how, &set, std::ptr::null_mut());
    }
}

/// What the kernel does by default when `n` is delivered to a process.
fn native(n: i32) -> Obs {
    if !(1..=64).contains(&n) {
        return Obs::Infra("not a signal".into());
    }
    let (_r, o) = probe(|fd| {
        set_disposition(n, libc::SIG_DFL);
        mask(libc::SIG_UNBLOCK, &[n]);
        unsafe { libc::raise(n) };
        emit(fd, &json!({"k": "alive"}));
    });
    o
}

thread_local! {
    static NATIVE: RefCell<HashMap<i32, Obs>> = RefCell::new(HashMap::new());
    static NAMES: RefCell<Option<HashMap<i32, Vec<String>>>> = const { RefCell::new(None) };
}

fn native_cached(n: i32) -> Obs {
    NATIVE.with(|m| m.borrow_mut().entry(n).or_insert_with(|| native(n)).clone())
}

/// Platform names per number, from the C headers at check time.
fn platform_names() -> HashMap<i32, Vec<String>> {
    NAMES.with(|c| {
        if c.borrow().is_none() {
            let mut m: HashMap<i32, Vec<String>> = HashMap::new();
            let out = std::process::Command::new("sh")
                .arg("-c")
                .arg("echo '#include <signal.h>' | cc -dM -E -x c - 2>/dev/null")
                .output();
            let mut defs: HashMap<String, String> = HashMap::new();
            if let Ok(o) = out {
                for l in String::from_utf8_lossy(&o.stdout).lines() {
                    let mut it = l.split_whitespace();
                    if it.next() == Some("#define") {
                        if let (Some(name), Some(val)) = (it.next(), it.next()) {
                            if name.starts_with("SIG") && !name.starts_with("SIG_") && !name.starts_with("SIGEV") {
                                defs.insert(name.to_string(), val.to_string());
                            }
                        }
                    }
                }
            }
            for (name, val) in defs.clone() {
                // resolve one level of aliasing (#define SIGPOLL SIGIO)
                let v = defs.get(&val).cloned().unwrap_or(val);
                if let Ok(num) = v.parse::<i32>() {
                    m.entry(num).or_default().push(name);
                }
            }
            if m.is_empty() {
                // fall back to the libc crate's constants
                for (num, name) in [
                    (libc::SIGHUP, "SIGHUP"), (libc::SIGINT, "SIGINT"), (libc::SIGQUIT, "SIGQUIT"), (libc::SIGILL, "SIGILL"),
                    (libc::SIGTRAP, "SIGTRAP"), (libc::SIGABRT, "SIGABRT"), (libc::SIGBUS, "SIGBUS"), (libc::SIGFPE, "SIGFPE"),
                    (libc::SIGKILL, "SIGKILL"), (libc::SIGUSR1, "SIGUSR1"), (libc::SIGSEGV, "SIGSEGV"), (libc::SIGUSR2, "SIGUSR2"),
                    (libc::SIGPIPE, "SIGPIPE"), (libc::SIGALRM, "SIGALRM"), (libc::SIGTERM, "SIGTERM"), (libc::SIGCHLD, "SIGCHLD"),
                    (libc::SIGCONT, "SIGCONT"), (libc::SIGSTOP, "SIGSTOP"), (libc::SIGTSTP, "SIGTSTP"), (libc::SIGTTIN, "SIGTTIN"),
                    (libc::SIGTTOU, "SIGTTOU"), (libc::SIGURG, "SIGURG"), (libc::SIGXCPU, "SIGXCPU"), (libc::SIGXFSZ, "SIGXFSZ"),
                    (libc::SIGVTALRM, "SIGVTALRM"), (libc::SIGPROF, "SIGPROF"), (libc::SIGWINCH, "SIGWINCH"), (libc::SIGIO, "SIGIO"),
                    (libc::SIGSYS, "SIGSYS"),
                ] {
                    m.entry(num).or_default().push(name.to_string());
                }
            }
            *c.borrow_mut() = Some(m);
        }
        c.borrow().clone().unwrap()
    })
}

fn emulated(case: &C16Case) -> (Vec<Value>, Obs) {
    let case = case.clone();
    probe(move |fd| {
        crate::vsched::install();
        let n = case.n;
        let others: Vec<i32> = case.block_others.iter().cloned().filter(|s| *s != n && *s != libc::SIGKILL && *s != libc::SIGSTOP && *s != 32 && *s != 33).collect();
        mask(libc::SIG_BLOCK, &others);
        if case.pend_others {
            for o in &others {
                unsafe { libc::raise(*o) };
            }
        }
        if case.pre_ignore && (1..=64).contains(&n) && n != libc::SIGKILL && n != libc::SIGSTOP && case.ctx != 1 && case.ctx != 5 {
            set_disposition(n, libc::SIG_IGN);
        }
        let d0 = dispositions();
        match case.ctx {
            1 => {
                // inside the signal's own action
                let forbidden = [libc::SIGILL, libc::SIGFPE, libc::SIGSEGV].contains(&n);
                let r = if forbidden {
                    unsafe {
                        signal_hook_registry::register_unchecked(n, move |_| {
                            let _ = signal_hook::low_level::emulate_default_handler(n);
                        })
                    }
                    .map(|_| ())
                } else {
                    match std::panic::catch_unwind(|| signal_hook::flag::register_conditional_default(n, Arc::new(AtomicBool::new(true)))) {
                        Ok(r) => r.map(|_| ()),
                        Err(_) => {
                            emit(fd, &json!({"k": "reg-panic"}));
                            emit(fd, &json!({"k": "alive"}));
                            return;
                        }
                    }
                };
                match r {
                    Ok(()) => {
                        emit(fd, &json!({"k": "registered"}));
                        unsafe { libc::raise(n) };
                        emit(fd, &json!({"k": "alive"}));
                    }
                    Err(e) => {
                        let same = dispositions() == d0;
                        emit(fd, &json!({"k": "err", "errno": e.raw_os_error(), "unchanged": same}));
                        emit(fd, &json!({"k": "alive"}));
                    }
                }
            }
            4 => {
                // on a second thread; the main thread stays around with the signal unblocked
                let done = Arc::new(AtomicBool::new(false));
                let d2 = done.clone();
                let h = std::thread::spawn(move || {
                    let r = signal_hook::low_level::emulate_default_handler(n);
                    match r {
                        Ok(()) => emit(fd, &json!({"k": "ok", "unchanged": dispositions() == d0})),
                        Err(e) => emit(fd, &json!({"k": "err", "errno": e.raw_os_error(), "unchanged": dispositions() == d0})),
                    }
                    d2.store(true, std::sync::atomic::Ordering::SeqCst);
                });
                let start = std::time::Instant::now();
                while !done.load(std::sync::atomic::Ordering::SeqCst) && start.elapsed().as_millis() < 3000 {
                    std::thread::sleep(std::time::Duration::from_micros(100));
                }
                let _ = h;
                emit(fd, &json!({"k": "alive"}));
            }
            5 => {
                use std::os::unix::thread::JoinHandleExt;
                let after = Arc::new(AtomicBool::new(false));
                let forbidden = [libc::SIGILL, libc::SIGFPE, libc::SIGSEGV].contains(&n);
                let a2 = after.clone();
                let r = if forbidden {
                    unsafe {
                        signal_hook_registry::register_unchecked(n, move |_| {
                            let _ = signal_hook::low_level::emulate_default_handler(n);
                            a2.store(true, std::sync::atomic::Ordering::SeqCst);
                        })
                    }
                    .map(|_| ())
                } else {
                    match std::panic::catch_unwind(|| signal_hook::flag::register_conditional_default(n, Arc::new(AtomicBool::new(true)))) {
                        // a plain flag registered afterwards runs after the emulation returned
                        Ok(r) => r.and_then(|_| signal_hook::flag::register(n, a2)).map(|_| ()),
                        Err(_) => {
                            emit(fd, &json!({"k": "reg-panic"}));
                            emit(fd, &json!({"k": "alive"}));
                            return;
                        }
                    }
                };
                match r {
                    Ok(()) => {
                        emit(fd, &json!({"k": "registered"}));
                        let stop = Arc::new(AtomicBool::new(false));
                        let s2 = stop.clone();
                        let h = std::thread::spawn(move || {
                            while !s2.load(std::sync::atomic::Ordering::SeqCst) {
                                std::thread::sleep(std::time::Duration::from_micros(100));
                            }
                        });
                        unsafe { libc::pthread_kill(h.as_pthread_t(), n) };
                        let start = std::time::Instant::now();
                        while !after.load(std::sync::atomic::Ordering::SeqCst) && start.elapsed().as_millis() < 3000 {
                            std::thread::sleep(std::time::Duration::from_micros(100));
                        }
                        stop.store(true, std::sync::atomic::Ordering::SeqCst);
                        emit(fd, &json!({"k": "alive"}));
                    }
                    Err(e) => {
                        let same = dispositions() == d0;
                        emit(fd, &json!({"k": "err", "errno": e.raw_os_error(), "unchanged": same}));
                        emit(fd, &json!({"k": "alive"}));
                    }
                }
            }
            6 => {
                // the registry is busy with the very same signal on another thread: the signal had
                // been taken over and all its actions removed again; now one thread keeps
                // registering and unregistering an action for it while this one emulates the default
                let forbidden = [libc::SIGILL, libc::SIGFPE, libc::SIGSEGV, libc::SIGKILL, libc::SIGSTOP].contains(&n);
                // (numbers the library has no name for are only asked to fail: nothing is taken over)
                if forbidden || !(1..=64).contains(&n) || n == 32 || n == 33 || signal_hook::low_level::signal_name(n).is_none() {
                    let r = signal_hook::low_level::emulate_default_handler(n);
                    match r {
                        Ok(()) => emit(fd, &json!({"k": "ok", "unchanged": dispositions() == d0})),
                        Err(e) => emit(fd, &json!({"k": "err", "errno": e.raw_os_error(), "unchanged": dispositions() == d0})),
                    }
                    emit(fd, &json!({"k": "alive"}));
                    return;
                }
                match unsafe { signal_hook_registry::register(n, || {}) } {
                    Ok(id) => {
                        signal_hook_registry::unregister(id);
                    }
                    Err(_) => {
                        emit(fd, &json!({"k": "alive"}));
                        return;
                    }
                }
                let stop = Arc::new(AtomicBool::new(false));
                let s2 = stop.clone();
                let churn = std::thread::spawn(move || {
                    let mut k = 0u32;
                    while !s2.load(std::sync::atomic::Ordering::SeqCst) && k < 200_000 {
                        if let Ok(id) = unsafe { signal_hook_registry::register(n, || {}) } {
                            signal_hook_registry::unregister(id);
                        }
                        k += 1;
                    }
                });
                std::thread::sleep(std::time::Duration::from_micros(300));
                let r = signal_hook::low_level::emulate_default_handler(n);
                stop.store(true, std::sync::atomic::Ordering::SeqCst);
                let _ = churn.join();
                match r {
                    Ok(()) => emit(fd, &json!({"k": "ok"})),
                    Err(e) => emit(fd, &json!({"k": "err", "errno": e.raw_os_error()})),
                }
                emit(fd, &json!({"k": "alive"}));
            }
            c => {
                if c == 2 {
                    mask(libc::SIG_BLOCK, &[n]);
                } else if c == 3 {
                    mask(libc::SIG_UNBLOCK, &[n]);
                }
                let r = signal_hook::low_level::emulate_default_handler(n);
                match r {
                    Ok(()) => emit(fd, &json!({"k": "ok", "unchanged": dispositions() == d0})),
                    Err(e) => emit(fd, &json!({"k": "err", "errno": e.raw_os_error(), "unchanged": dispositions() == d0})),
                }
                emit(fd, &json!({"k": "alive"}));
            }
        }
    })
}

pub fn run_case(case: &C16Case) -> CaseReport {
    let mut rep = CaseReport::default();
    let n = case.n;
    let ctxname = ["normal", "in-handler", "blocked", "unblocked", "second-thread", "in-handler-on-second-thread", "registry-busy-with-the-signal"][case.ctx as usize % 7];
    rep.hash = hash_of(&(n, case.ctx, &case.block_others, case.pre_ignore, case.pend_others));
    if case.pend_others && !case.block_others.is_empty() {
        rep.class("other-signals-blocked-and-pending");
    }
    let name = signal_hook::low_level::signal_name(n);
    let names = platform_names();
    // name check
    if let Some(nm) = name {
        let ok = names.get(&n).map_or(false, |v| v.iter().any(|x| x == nm));
        if !ok {
            rep.viol(&format!("C16/name/sig={}", n), format!("signal_name({}) = {} but the platform calls that number {:?}", n, nm, names.get(&n)));
        }
    }
    // in-handler context impossible for KILL/STOP: nothing to compare
    if (case.ctx == 1 || case.ctx == 5) && (n == libc::SIGKILL || n == libc::SIGSTOP) {
        rep.sample = Some(json!({"n": n, "ctx": ctxname, "skipped": "cannot be caught"}));
        return rep;
    }
    let (recs, emu) = emulated(case);
    rep.nontrivial = name.is_some() || case.ctx != 0;
    rep.class(ctxname);
    if name.is_some() {
        rep.class("named");
    } else {
        rep.class("unnamed");
    }
    if let Obs::Timeout | Obs::Infra(_) = emu {
        rep.inconclusive = Some(format!("probe: {:?}", emu));
        return rep;
    }
    let mut native_obs = None;
    if name.is_some() {
        let nat = native_cached(n);
        if let Obs::Timeout | Obs::Infra(_) = nat {
            rep.inconclusive = Some(format!("native probe: {:?}", nat));
            return rep;
        }
        let class = |o: &Obs| match o {
            Obs::Term(k) => format!("terminated by signal {}", k),
            Obs::Stopped(_) => "stopped".to_string(),
            Obs::Continues => "continues".to_string(),
            o => format!("{:?}", o),
        };
        if class(&nat) != class(&emu) {
            rep.viol(
                &format!("C16/outcome/sig={}/{}", n, ctxname),
                format!("signal {} ({}): the kernel's default action: {}; emulate_default_handler ({} context): {}", n, name.unwrap(), class(&nat), ctxname, class(&emu)),
            );
        }
        if let Obs::Term(k) = nat {
            if k != n {
                rep.inconclusive = Some(format!("native probe of {} died of {}", n, k));
            }
        }
        native_obs = Some(nat);
    } else {
        // unknown signal: error, nothing else happens
        let err = recs.iter().find(|r| r["k"] == "err");
        match (&emu, err) {
            (Obs::Continues, Some(e)) => {
                if e["unchanged"] != true {
                    rep.viol(&format!("C16/unknown-side-effect/sig={}", n), format!("emulating unknown signal {} changed dispositions", n));
                }
            }
            (Obs::Continues, None) if (case.ctx == 1 || case.ctx == 5) && recs.iter().any(|r| r["k"] == "reg-panic") => {}
            _ => {
                rep.viol(
                    &format!("C16/unknown/sig={}", n),
                    format!("signal {} has no name in the library, yet emulate_default_handler / register_conditional_default did not just return an error: {:?} {:?}", n, emu, recs),
                );
            }
        }
    }
    rep.sample = Some(json!({"n": n, "name": name, "ctx": ctxname, "block_others": case.block_others, "pre_ignore": case.pre_ignore, "emulated": format!("{:?}", emu), "native": native_obs.map(|o| format!("{:?}", o)), "records": recs}));
    rep
}

pub fn strategy() -> BoxedStrategy<C16Case> {
    (
        prop_oneof![6 => 1i32..65, 1 => proptest::sample::select(vec![0, -1, 65, 128, i32::MAX, i32::MIN])],
        0u8..7,
        vec(prop_oneof![2 => 1i32..65, 3 => proptest::sample::select(vec![libc::SIGTERM, libc::SIGINT, libc::SIGUSR1, libc::SIGHUP, libc::SIGQUIT, libc::SIGALRM])], 0..4),
        any::<bool>(),
        any::<bool>(),
    )
        .prop_map(|(n, ctx, block_others, pre_ignore, pend_others)| C16Case { n, ctx, block_others, pre_ignore, pend_others })
        .boxed()
}

fn worker(def: &PropDef, args: &WorkerArgs) -> WorkerReport {
    generic_worker(def, args, strategy(), &run_case)
}

/// The signal x context table, enumerated completely.
fn extra(def: &PropDef, _args: &WorkerArgs, report: &mut WorkerReport) {
    let known = Known::load();
    let mut nums: Vec<i32> = (1..=64).collect();
    nums.extend([0, -1, 65, 128, i32::MAX]);
    for n in nums {
        for ctx in 0..7u8 {
            let case = C16Case { n, ctx, block_others: vec![], pre_ignore: false, pend_others: false };
            let rep = run_case(&case);
            if let Some(v) = report.absorb(def, &rep, &known) {
                report.violation = Some((v.key, v.msg, serde_json::to_value(&case).unwrap()));
                return;
            }
        }
    }
    for n in 1..=64 {
        for ctx in [0u8, 1] {
            let other = if n == libc::SIGTERM { libc::SIGINT } else { libc::SIGTERM };
            let case = C16Case { n, ctx, block_others: vec![other, libc::SIGUSR2], pre_ignore: false, pend_others: true };
            let rep = run_case(&case);
            if let Some(v) = report.absorb(def, &rep, &known) {
                report.violation = Some((v.key, v.msg, serde_json::to_value(&case).unwrap()));
                return;
            }
        }
    }
    {
        let rep = double_stop_case();
        if rep.inconclusive.is_none() {
            if let Some(v) = report.absorb(def, &rep, &known) {
                report.violation = Some((v.key, v.msg, json!({"double_stop": true})));
                return;
            }
        }
    }
    report.exhaustive = true;
}

fn replay(v: &Value) -> CaseReport {
    if v.get("double_stop").is_some() {
        return double_stop_case();
    }
    let case: C16Case = serde_json::from_value(v.clone()).expect("case");
    run_case(&case)
}

pub static C16: PropDef = PropDef {
    id: "C16",
    prefixes: &["C16/"],
    rule: "forkprobe differential: signal number (1..64 and out-of-range) x context {normal, inside the signal's own action, blocked, unblocked, on a second thread with the main thread idle and the signal unblocked there, inside the action on a second thread (thread-directed delivery), while another thread keeps registering/unregistering an action for the same (taken-over, emptied) signal} enumerated completely by worker 0, plus proptest-generated extras (other signals blocked, signal ignored beforehand); each probe is a forked child alone in a fresh non-orphaned process group observed with waitpid(WUNTRACED). Oracle: outcome class {terminated by signal n, stopped, continues} of emulate_default_handler equals the kernel's own default action measured by a native probe (SIG_DFL + raise) in the same run; unknown numbers return an error and change no disposition; signal_name equals a name the C headers give that number. Non-trivial = named signal or non-normal context; distinct = (number, context, extras)",
    assumptions: &[
        "the kernel of this sandbox is the reference (Linux); probes run in a non-orphaned process group so terminal stop signals stop",
        "platform names come from `cc -dM -E <signal.h>` at check time (fallback: the libc crate's constants)",
    ],
    cases: (150, 30_000),
    shrink_iters: 100,
    worker,
    replay,
    extra: Some(extra),
};

// ---- two stop signals in a row: the process is stopped by the first, continued, and a second
// stop-kind signal arrives right at the resume (while the first emulation may still be on the
// stack). The kernel's default stops the process twice; so must the emulation.
fn double_stop_probe(emulated: bool) -> (u32, String) {
    let pid = unsafe { libc::fork() };
    if pid < 0 {
        return (0, "fork failed".into());
    }
    if pid == 0 {
        unsafe { libc::setpgid(0, 0) };
        normalise_signals();
        if emulated {
            crate::vsched::install();
            for s in [libc::SIGTSTP, libc::SIGTTIN] {
                let _ = signal_hook::flag::register_conditional_default(s, Arc::new(AtomicBool::new(true)));
            }
        }
        // tell the parent we are ready by stopping ourselves the plain way first? no: just idle
        loop {
            std::thread::sleep(std::time::Duration::from_millis(1));
        }
    }
    unsafe { libc::setpgid(pid, pid) };
    std::thread::sleep(std::time::Duration::from_millis(30));
    let wait_stop = |ms: u64| -> bool {
        let t = std::time::Instant::now();
        loop {
            let mut st = 0;
            let r = unsafe { libc::waitpid(pid, &mut st, libc::WNOHANG | libc::WUNTRACED) };
            if r == pid && libc::WIFSTOPPED(st) {
                return true;
            }
            if r == pid && (libc::WIFEXITED(st) || libc::WIFSIGNALED(st)) {
                return false;
            }
            if t.elapsed().as_millis() as u64 > ms {
                return false;
            }
            std::thread::sleep(std::time::Duration::from_micros(200));
        }
    };
    let mut stops = 0;
    let mut note = String::new();
    unsafe { libc::kill(pid, libc::SIGTSTP) };
    if wait_stop(3000) {
        stops += 1;
        unsafe {
            libc::kill(pid, libc::SIGCONT);
            libc::kill(pid, libc::SIGTTIN);
        }
        if wait_stop(2000) {
            stops += 1;
        } else {
            note = "the second stop signal, sent right after SIGCONT, did not stop the process".into();
        }
    } else {
        note = "the first SIGTSTP did not stop the process".into();
    }
    unsafe {
        libc::kill(pid, libc::SIGKILL);
        let mut st = 0;
        libc::waitpid(pid, &mut st, 0);
    }
    (stops, note)
}

fn double_stop_case() -> CaseReport {
    let mut rep = CaseReport::default();
    rep.hash = hash_of(&"double-stop");
    rep.class("two-stop-signals-in-a-row");
    rep.nontrivial = true;
    let (native, nnote) = double_stop_probe(false);
    if native != 2 {
        // (an orphaned process group makes the kernel discard terminal stop signals)
        rep.inconclusive = Some(format!("native double-stop probe: {} stops ({})", native, nnote));
        rep.sample = Some(json!({"double_stop": true, "native_stops": native}));
        return rep;
    }
    // the race window is narrow: a handful of rounds
    let mut worst = 2;
    let mut note = String::new();
    for _ in 0..5 {
        let (e, n) = double_stop_probe(true);
        if e < worst {
            worst = e;
            note = n;
        }
    }
    rep.sample = Some(json!({"double_stop": true, "native_stops": native, "emulated_stops_min_of_5": worst}));
    if worst != 2 {
        rep.viol("C16/outcome/double-stop", format!("SIGTSTP, SIGCONT and SIGTTIN in a row: the kernel's default stops the process twice, with both signals emulated through register_conditional_default it stopped {} time(s): {}", worst, note));
    }
    rep
}
