//! Real-runtime family for C09/C10/C11: the tokio and async-std adapter streams driven by their
//! own runtimes and real signals (the schedule-owning executor cannot host those runtimes; here
//! the oracle only uses generous time-outs on states that are themselves the property: a signal
//! that is never yielded, a stream that never ends after close).

use crate::driver::*;
use crate::forkrun::*;
use futures_lite::StreamExt;
use libc::c_int;
use proptest::collection::vec;
use proptest::prelude::*;
use serde::{Deserialize, Serialize};
use serde_json::{json, Value};
use std::sync::atomic::{AtomicBool, AtomicUsize, Ordering};
use std::sync::Arc;

pub const ASIGS: [c_int; 3] = [libc::SIGUSR1, libc::SIGUSR2, libc::SIGHUP];

#[derive(Clone, Debug, Serialize, Deserialize, PartialEq)]
pub enum AOp {
    /// raise and wait until the stream has yielded that signal
    RaiseAwait(u8),
    /// raise without waiting (may be collated with the next one)
    Raise(u8),
    Close,
    Pause,
    /// an unrelated signal with a third-party handler installed *without* SA_RESTART, directed at
    /// the consuming thread: a blocking read of the self-pipe fails with EINTR and must be retried
    Interrupt,
}

#[derive(Clone, Debug, Serialize, Deserialize)]
pub struct AdapterCase {
    /// 0 tokio, 1 async-std, 2 a plain thread in `Signals::forever()`, 3 a plain thread in a
    /// `wait()` loop (the blocking front-end, really blocked in read(2)), 4 the mio adapter
    /// registered with a `mio::Poll` (edge-triggered readiness, `pending()` on every event)
    pub runtime: u8,
    pub init: Vec<u8>,
    pub ops: Vec<AOp>,
    /// stress variant (when `streams` > 0): that many streams watching the first signal of
    /// `init`, consumed by tasks of one runtime with `workers` threads (tokio: multi-thread
    /// runtime; async-std: that many threads each blocking on its own streams), a flood of real
    /// deliveries with the generated gaps (in microseconds), then close() on every handle:
    /// every stream must end
    #[serde(default)]
    pub streams: u8,
    #[serde(default)]
    pub workers: u8,
    #[serde(default)]
    pub flood: Vec<u8>,
}

pub fn strategy() -> BoxedStrategy<AdapterCase> {
    let op = prop_oneof![
        5 => (0u8..3).prop_map(AOp::RaiseAwait),
        3 => (0u8..3).prop_map(AOp::Raise),
        1 => Just(AOp::Close),
        1 => Just(AOp::Pause),
        2 => Just(AOp::Interrupt),
    ];
    let plain = (0u8..5, vec(0u8..3, 1..4), vec(op, 1..10))
        .prop_map(|(runtime, init, mut ops)| {
            // only watched signals are raised; nothing is raised after close
            if let Some(p) = ops.iter().position(|o| *o == AOp::Close) {
                ops.truncate(p + 1);
            }
            for o in ops.iter_mut() {
                if let AOp::RaiseAwait(s) | AOp::Raise(s) = o {
                    *s = init[*s as usize % init.len()];
                }
            }
            AdapterCase { runtime, init, ops, streams: 0, workers: 0, flood: vec![] }
        });
    let stress = (0u8..2, 0u8..3, 4u8..10, 3u8..6, vec(0u8..60, 1000..3000)).prop_map(|(runtime, sig, streams, workers, flood)| AdapterCase { runtime, init: vec![sig], ops: vec![], streams, workers, flood });
    prop_oneof![3 => plain, 1 => stress].boxed()
}

fn stress_child(case: &AdapterCase, fd: i32) {
    crate::vsched::install();
    ignore_sigpipe();
    let sig = ASIGS[case.init.first().cloned().unwrap_or(0) as usize % 3];
    let n = case.streams as usize;
    let workers = case.workers.max(1) as usize;
    let ended = Arc::new(AtomicUsize::new(0));
    let seen = Arc::new(AtomicUsize::new(0));
    let other = Arc::new(AtomicUsize::new(0));
    let (handle_tx, handle_rx) = std::sync::mpsc::channel::<signal_hook::iterator::Handle>();
    let mut threads = Vec::new();
    if case.runtime % 2 == 0 {
        let (ended, seen, other) = (ended.clone(), seen.clone(), other.clone());
        threads.push(std::thread::spawn(move || {
            let rt = tokio::runtime::Builder::new_multi_thread().worker_threads(workers).enable_io().build().expect("tokio runtime");
            rt.block_on(async {
                let mut tasks = Vec::new();
                for _ in 0..n {
                    let mut signals = signal_hook_tokio::Signals::new(&[sig]).expect("tokio Signals");
                    handle_tx.send(signals.handle()).unwrap();
                    let (ended, seen, other) = (ended.clone(), seen.clone(), other.clone());
                    tasks.push(tokio::spawn(async move {
                        while let Some(s) = signals.next().await {
                            if s == sig {
                                seen.fetch_add(1, Ordering::SeqCst);
                            } else {
                                other.fetch_add(1, Ordering::SeqCst);
                            }
                        }
                        ended.fetch_add(1, Ordering::SeqCst);
                    }));
                }
                for t in tasks {
                    let _ = t.await;
                }
            });
        }));
    } else {
        // async-std adapter: `workers` executor threads, the streams dealt out among them
        for w in 0..workers {
            let mine = (0..n).filter(|i| i % workers == w).count();
            let (ended, seen, other) = (ended.clone(), seen.clone(), other.clone());
            let handle_tx = handle_tx.clone();
            threads.push(std::thread::spawn(move || {
                async_io::block_on(async {
                    let mut streams = Vec::new();
                    for _ in 0..mine {
                        let signals = signal_hook_async_std::Signals::new(&[sig]).expect("async-std Signals");
                        handle_tx.send(signals.handle()).unwrap();
                        streams.push(signals);
                    }
                    // one task per thread polling its streams round-robin until all ended
                    let mut live: Vec<_> = streams.into_iter().map(Some).collect();
                    while live.iter().any(|s| s.is_some()) {
                        let mut futs = Vec::new();
                        for s in live.iter_mut() {
                            if let Some(st) = s {
                                futs.push(st.next());
                            }
                        }
                        let (r, idx, _) = futures_lite_select(futs).await;
                        let k = live.iter().enumerate().filter(|(_, s)| s.is_some()).nth(idx).map(|(i, _)| i).unwrap();
                        match r {
                            Some(s) if s == sig => {
                                seen.fetch_add(1, Ordering::SeqCst);
                            }
                            Some(_) => {
                                other.fetch_add(1, Ordering::SeqCst);
                            }
                            None => {
                                live[k] = None;
                                ended.fetch_add(1, Ordering::SeqCst);
                            }
                        }
                    }
                });
            }));
        }
        drop(handle_tx);
    }
    let mut handles = Vec::new();
    for _ in 0..n {
        match handle_rx.recv_timeout(std::time::Duration::from_secs(5)) {
            Ok(h) => handles.push(h),
            Err(_) => {
                emit(fd, &json!({"k": "infra", "what": "adapter streams did not start"}));
                return;
            }
        }
    }
    // the flood: real deliveries with generated gaps
    for g in &case.flood {
        unsafe { libc::raise(sig) };
        let spin = std::time::Duration::from_micros(*g as u64);
        let start = std::time::Instant::now();
        while start.elapsed() < spin {
            std::hint::spin_loop();
        }
    }
    for h in &handles {
        h.close();
    }
    let start = std::time::Instant::now();
    while ended.load(Ordering::SeqCst) < n && start.elapsed().as_millis() < 6000 {
        std::thread::sleep(std::time::Duration::from_micros(500));
    }
    let e = ended.load(Ordering::SeqCst);
    emit(fd, &json!({"k": "stress-end", "ended": e, "streams": n, "seen": seen.load(Ordering::SeqCst), "other": other.load(Ordering::SeqCst), "raised": case.flood.len()}));
    emit(fd, &json!({"k": "done"}));
    let _ = threads;
}

/// first stream to produce an item: (item, index, ())
async fn futures_lite_select<F: std::future::Future + Unpin>(mut futs: Vec<F>) -> (F::Output, usize, ()) {
    std::future::poll_fn(move |cx| {
        for (i, f) in futs.iter_mut().enumerate() {
            if let std::task::Poll::Ready(v) = std::pin::Pin::new(f).poll(cx) {
                return std::task::Poll::Ready((v, i, ()));
            }
        }
        std::task::Poll::Pending
    })
    .await
}

struct Shared {
    counts: [AtomicUsize; 3],
    other: AtomicUsize,
    ended: AtomicBool,
}

fn child(case: &AdapterCase, fd: i32) {
    if case.streams > 0 {
        return stress_child(case, fd);
    }
    crate::vsched::install();
    ignore_sigpipe();
    let watched: Vec<c_int> = case.init.iter().map(|i| ASIGS[*i as usize % 3]).collect();
    let shared = Arc::new(Shared { counts: [AtomicUsize::new(0), AtomicUsize::new(0), AtomicUsize::new(0)], other: AtomicUsize::new(0), ended: AtomicBool::new(false) });
    let record = |sh: &Shared, s: c_int| match ASIGS.iter().position(|x| *x == s) {
        Some(i) => {
            sh.counts[i].fetch_add(1, Ordering::SeqCst);
        }
        None => {
            sh.other.fetch_add(1, Ordering::SeqCst);
        }
    };
    let (handle_tx, handle_rx) = std::sync::mpsc::channel::<signal_hook::iterator::Handle>();
    let sh2 = shared.clone();
    let w2 = watched.clone();
    let rt_kind = case.runtime % 5;
    // the third-party handler for the interrupting signal: installed directly, no SA_RESTART
    extern "C" fn noop(_: c_int) {}
    unsafe {
        let mut sa: libc::sigaction = std::mem::zeroed();
        sa.sa_sigaction = noop as usize;
        libc::sigaction(libc::SIGURG, &sa, std::ptr::null_mut());
    }
    let panicked = Arc::new(AtomicBool::new(false));
    let p2 = panicked.clone();
    let consumer = std::thread::spawn(move || {
        if rt_kind == 4 {
            let r = std::panic::catch_unwind(std::panic::AssertUnwindSafe(|| {
                use mio::{Events, Interest, Poll, Token};
                let mut poll = Poll::new().expect("mio poll");
                let mut events = Events::with_capacity(8);
                let mut signals = signal_hook_mio::v0_8::Signals::new(&w2).expect("mio Signals");
                // the mio adapter has no close(): the harness stops this loop through the handle
                // of an unrelated, empty instance
                let stopper = signal_hook::iterator::Signals::new(&[] as &[c_int]).expect("stopper");
                let handle = stopper.handle();
                poll.registry().register(&mut signals, Token(7), Interest::READABLE).expect("register");
                handle_tx.send(handle.clone()).unwrap();
                // edge-triggered: the application acts on events only (pending() is never called
                // on a time-out); a lost readiness event is a lost signal
                while !handle.is_closed() {
                    match poll.poll(&mut events, Some(std::time::Duration::from_millis(20))) {
                        Ok(()) => {}
                        Err(e) if e.kind() == std::io::ErrorKind::Interrupted => continue,
                        Err(e) => panic!("mio poll: {}", e),
                    }
                    for ev in events.iter() {
                        if ev.token() == Token(7) {
                            for s in signals.pending() {
                                record(&sh2, s);
                            }
                        }
                    }
                }
            }));
            if r.is_err() {
                p2.store(true, Ordering::SeqCst);
            }
            sh2.ended.store(true, Ordering::SeqCst);
        } else if rt_kind >= 2 {
            let r = std::panic::catch_unwind(std::panic::AssertUnwindSafe(|| {
                let mut signals = signal_hook::iterator::Signals::new(&w2).expect("Signals");
                handle_tx.send(signals.handle()).unwrap();
                if rt_kind == 2 {
                    for s in signals.forever() {
                        record(&sh2, s);
                    }
                } else {
                    while !signals.is_closed() {
                        for s in signals.wait() {
                            record(&sh2, s);
                        }
                    }
                }
            }));
            if r.is_err() {
                p2.store(true, Ordering::SeqCst);
            }
            sh2.ended.store(true, Ordering::SeqCst);
        } else if rt_kind == 0 {
            let rt = tokio::runtime::Builder::new_current_thread().enable_io().build().expect("tokio runtime");
            rt.block_on(async {
                let mut signals = signal_hook_tokio::Signals::new(&w2).expect("tokio Signals");
                handle_tx.send(signals.handle()).unwrap();
                while let Some(s) = signals.next().await {
                    record(&sh2, s);
                }
                sh2.ended.store(true, Ordering::SeqCst);
            });
        } else {
            async_io::block_on(async {
                let mut signals = signal_hook_async_std::Signals::new(&w2).expect("async-std Signals");
                handle_tx.send(signals.handle()).unwrap();
                while let Some(s) = signals.next().await {
                    record(&sh2, s);
                }
                sh2.ended.store(true, Ordering::SeqCst);
            });
        }
    });
    let handle = match handle_rx.recv_timeout(std::time::Duration::from_secs(5)) {
        Ok(h) => h,
        Err(_) => {
            emit(fd, &json!({"k": "infra", "what": "adapter did not start"}));
            return;
        }
    };
    let wait_until = |f: &dyn Fn() -> bool, ms: u64| -> bool {
        let start = std::time::Instant::now();
        while !f() {
            if start.elapsed().as_millis() as u64 > ms {
                return false;
            }
            std::thread::sleep(std::time::Duration::from_micros(200));
        }
        true
    };
    let mut closed = false;
    for (i, op) in case.ops.iter().enumerate() {
        match op {
            AOp::RaiseAwait(s) | AOp::Raise(s) => {
                let idx = *s as usize % 3;
                let before = shared.counts[idx].load(Ordering::SeqCst);
                unsafe { libc::raise(ASIGS[idx]) };
                if let AOp::RaiseAwait(_) = op {
                    let sh = shared.clone();
                    if !wait_until(&move || sh.counts[idx].load(Ordering::SeqCst) > before, 6000) {
                        emit(fd, &json!({"k": "lost", "step": i, "sig": ASIGS[idx]}));
                    }
                }
            }
            AOp::Close => {
                handle.close();
                closed = true;
            }
            AOp::Pause => std::thread::sleep(std::time::Duration::from_micros(300)),
            AOp::Interrupt => {
                use std::os::unix::thread::JoinHandleExt;
                if !shared.ended.load(Ordering::SeqCst) {
                    // give the consumer time to block again, then interrupt it
                    std::thread::sleep(std::time::Duration::from_micros(200));
                    unsafe { libc::pthread_kill(consumer.as_pthread_t(), libc::SIGURG) };
                }
            }
        }
    }
    if !closed {
        handle.close();
    }
    let sh = shared.clone();
    let ended = wait_until(&move || sh.ended.load(Ordering::SeqCst), 6000);
    emit(
        fd,
        &json!({"k": "end", "ended": ended, "panicked": panicked.load(Ordering::SeqCst), "is_closed": handle.is_closed(), "counts": [shared.counts[0].load(Ordering::SeqCst), shared.counts[1].load(Ordering::SeqCst), shared.counts[2].load(Ordering::SeqCst)], "other": shared.other.load(Ordering::SeqCst)}),
    );
    if ended {
        let _ = consumer.join();
    }
    emit(fd, &json!({"k": "done"}));
}

pub fn run_case(case: &AdapterCase) -> CaseReport {
    let c2 = case.clone();
    let (recs, end) = fork_stream(40_000, move |fd| child(&c2, fd));
    let mut rep = CaseReport::default();
    rep.hash = hash_of(&format!("{:?}", case));
    let rt = if case.streams > 0 { ["tokio", "async-std"][case.runtime as usize % 2] } else { ["tokio", "async-std", "blocking forever()", "blocking wait() loop", "mio"][case.runtime as usize % 5] };
    rep.class("real-adapter");
    rep.class(rt);
    rep.nontrivial = case.ops.iter().any(|o| matches!(o, AOp::RaiseAwait(_)));
    rep.nontrivial_by = vec![("C09".into(), rep.nontrivial), ("C10".into(), rep.nontrivial), ("C11".into(), true)];
    rep.sample = Some(json!({"adapter": rt, "case": case, "records": recs, "end": format!("{:?}", end)}));
    if recs.iter().any(|r| r["k"] == "infra") || end != End::Exited(0) || !recs.iter().any(|r| r["k"] == "done") {
        match end {
            End::Signaled(s) => rep.viol(&format!("crash/sig={}", s), format!("{} adapter scenario killed by signal {}", rt, s)),
            _ => rep.inconclusive = Some(format!("adapter probe: {:?} {:?}", end, recs.last())),
        }
        return rep;
    }
    if let Some(e) = recs.iter().find(|r| r["k"] == "stress-end") {
        rep.class("adapter-stress");
        rep.nontrivial = true;
        if e["ended"] != e["streams"] {
            rep.viol("C11/adapter-stream-never-ends", format!("{}: {} streams on a {}-thread runtime, a flood of {} deliveries, then close() on every handle: only {} streams ended within 6 s (a polling task is stranded without a wake-up)", rt, e["streams"], case.workers, e["raised"], e["ended"]));
        }
        if e["other"].as_u64().unwrap_or(0) > 0 {
            rep.viol("C10/unwatched=x", format!("{}: a stream yielded a signal that is not in its set", rt));
        }
        if e["seen"].as_u64().unwrap_or(0) > e["raised"].as_u64().unwrap_or(0) * e["streams"].as_u64().unwrap_or(0) {
            rep.viol("C10/over-report", format!("{}: {} yields for {} deliveries on {} streams", rt, e["seen"], e["raised"], e["streams"]));
        }
        return rep;
    }
    for r in recs.iter().filter(|r| r["k"] == "lost") {
        rep.viol("C09/adapter-lost-signal", format!("{}: signal {} was delivered while the stream was open and being polled, but the stream did not yield it within 6 s", rt, r["sig"]));
    }
    if let Some(e) = recs.iter().find(|r| r["k"] == "end") {
        if e["panicked"] == true {
            for k in ["C09/consumer-panic", "C11/consumer-panic"] {
                rep.viol(k, format!("{}: the consuming thread panicked (a blocking read interrupted by an unrelated signal must simply be retried)", rt));
            }
        }
        if case.ops.iter().any(|o| *o == AOp::Interrupt) {
            rep.class("blocking-read-interrupted");
        }
        if e["ended"] != true {
            rep.viol("C11/adapter-stream-never-ends", format!("{}: 6 s after close() the stream still had not ended (the polling task is stranded)", rt));
        }
        if e["is_closed"] != true {
            rep.viol("C11/not-sticky", format!("{}: is_closed() false after close()", rt));
        }
        if e["other"].as_u64().unwrap_or(0) > 0 {
            rep.viol("C10/unwatched=x", format!("{}: the stream yielded a signal that is not in its set", rt));
        }
        let watched: Vec<usize> = case.init.iter().map(|i| *i as usize % 3).collect();
        for i in 0..3 {
            let raised = case.ops.iter().filter(|o| matches!(o, AOp::RaiseAwait(s) | AOp::Raise(s) if *s as usize % 3 == i)).count() as u64;
            let got = e["counts"][i].as_u64().unwrap_or(0);
            if got > raised || (!watched.contains(&i) && got > 0) {
                rep.viol("C10/over-report", format!("{}: signal {} yielded {} times for {} deliveries", rt, ASIGS[i], got, raised));
            }
        }
    }
    rep
}

/// C11 probe (worker 0): the blocking iterator with a consumer that is busy handling a signal
/// while hundreds of further deliveries fill the self-pipe; then another thread calls close().
/// close() must return at once (its wake-up write must not wait for room in the pipe), and once
/// the consumer gets back to the iterator it must end.
pub fn close_with_full_pipe_probe() -> CaseReport {
    static BUSY: AtomicBool = AtomicBool::new(false);
    let (recs, end) = fork_stream(30_000, |fd| {
        crate::vsched::install();
        ignore_sigpipe();
        let sig = libc::SIGUSR1;
        let (handle_tx, handle_rx) = std::sync::mpsc::channel::<signal_hook::iterator::Handle>();
        let ended = Arc::new(AtomicBool::new(false));
        let e2 = ended.clone();
        let in_record = Arc::new(AtomicBool::new(false));
        let ir2 = in_record.clone();
        std::thread::spawn(move || {
            let mut signals = signal_hook::iterator::Signals::new(&[sig]).expect("Signals");
            handle_tx.send(signals.handle()).unwrap();
            for _ in signals.forever() {
                ir2.store(true, Ordering::SeqCst);
                while BUSY.load(Ordering::SeqCst) {
                    std::thread::sleep(std::time::Duration::from_micros(200));
                }
            }
            e2.store(true, Ordering::SeqCst);
        });
        let handle = match handle_rx.recv_timeout(std::time::Duration::from_secs(5)) {
            Ok(h) => h,
            Err(_) => {
                emit(fd, &json!({"k": "infra", "what": "consumer did not start"}));
                return;
            }
        };
        BUSY.store(true, Ordering::SeqCst);
        unsafe { libc::raise(sig) };
        let t0 = std::time::Instant::now();
        while !in_record.load(Ordering::SeqCst) && t0.elapsed().as_secs() < 5 {
            std::thread::sleep(std::time::Duration::from_micros(200));
        }
        // the flood and the close run on threads of their own: if the library blocks in there, the
        // harness must stay able to say so
        let flood_done = Arc::new(AtomicBool::new(false));
        let fd2 = flood_done.clone();
        std::thread::spawn(move || {
            for _ in 0..600 {
                unsafe { libc::raise(sig) };
            }
            fd2.store(true, Ordering::SeqCst);
        });
        let t1 = std::time::Instant::now();
        while !flood_done.load(Ordering::SeqCst) && t1.elapsed().as_secs() < 4 {
            std::thread::sleep(std::time::Duration::from_millis(1));
        }
        let close_done = Arc::new(AtomicBool::new(false));
        let cd2 = close_done.clone();
        let h2 = handle.clone();
        std::thread::spawn(move || {
            h2.close();
            cd2.store(true, Ordering::SeqCst);
        });
        let t2 = std::time::Instant::now();
        while !close_done.load(Ordering::SeqCst) && t2.elapsed().as_secs() < 4 {
            std::thread::sleep(std::time::Duration::from_millis(1));
        }
        let (flood_ok, close_ok) = (flood_done.load(Ordering::SeqCst), close_done.load(Ordering::SeqCst));
        BUSY.store(false, Ordering::SeqCst);
        let t3 = std::time::Instant::now();
        while !ended.load(Ordering::SeqCst) && t3.elapsed().as_secs() < 6 {
            std::thread::sleep(std::time::Duration::from_millis(1));
        }
        emit(fd, &json!({"k": "probe", "flood_finished": flood_ok, "close_returned": close_ok, "iterator_ended": ended.load(Ordering::SeqCst), "is_closed": handle.is_closed()}));
        emit(fd, &json!({"k": "done"}));
    });
    let mut rep = CaseReport::default();
    rep.hash = hash_of(&"close-with-full-pipe");
    rep.class("close-with-full-self-pipe");
    rep.nontrivial = true;
    rep.sample = Some(json!({"close_with_full_pipe": true, "records": recs, "end": format!("{:?}", end)}));
    match recs.iter().find(|r| r["k"] == "probe") {
        Some(r) => {
            if r["close_returned"] != true {
                rep.viol("C11/close-blocked", "close() did not return within 4 s: the consumer was busy handling a signal, 600 further deliveries had filled the self-pipe, and close()'s wake-up write waited for room".into());
            }
            if r["flood_finished"] != true {
                rep.viol("C03/blocked", "a burst of 600 deliveries into an undrained iterator instance did not finish".into());
            }
            if r["iterator_ended"] != true {
                rep.viol("C11/adapter-stream-never-ends", "blocking forever(): after close() the iterator did not end within 6 s once the consumer was back".into());
            }
        }
        None => rep.inconclusive = Some(format!("close-with-full-pipe probe ended {:?}", end)),
    }
    rep
}
