//! C09 / C10 / C11 — signal iterators under generated schedules (fork-per-case vsched, real
//! socketpair self-pipe, simulated deliveries through the real dispatcher).

use crate::driver::*;
use crate::forkrun::{fork_case, ChildEnd};
use crate::reg::sim_deliver;

/// watched signals: the lowest and the highest valid numbers and one in between
pub const SIGS: [c_int; 3] = [libc::SIGHUP, libc::SIGUSR2, 64];
use crate::vsched::{self, Config, Exec, Item, Nested, Outcome, RunResult};
use libc::c_int;
use proptest::collection::vec;
use proptest::prelude::*;
use serde::{Deserialize, Serialize};
use serde_json::{json, Value};
use signal_hook::iterator::backend::{Handle, PollResult, SignalDelivery, SignalIterator};
use signal_hook::iterator::exfiltrator::origin::Origin;
use signal_hook::iterator::exfiltrator::{Exfiltrator, SignalOnly, WithOrigin, WithRawSiginfo};
use signal_hook::iterator::SignalsInfo;
use signal_hook_registry::verif_shim::{Event, Kind};
use std::collections::{BTreeMap, BTreeSet, HashMap};
use std::os::unix::io::AsRawFd;
use std::os::unix::net::UnixStream;
use std::sync::Arc;

#[derive(Clone, Debug, Serialize, Deserialize, PartialEq)]
pub enum IOp {
    Deliver { sig: u8 },
    /// n deliveries back to back (fills the per-signal buffer of the info-carrying exfiltrators)
    Burst { sig: u8, n: u8 },
    AddSignal { sig: u8 },
    /// `times` attempts to add a number the OS rejects (65, 127 or glibc's reserved 33): each
    /// attempt gets as far as preparing the exfiltrator's slot and then fails with an error
    AddRejected { n: u8, times: u8 },
    Close,
    IsClosed,
}

#[derive(Clone, Debug, Serialize, Deserialize)]
pub struct INested {
    pub thread: usize,
    pub at: u32,
    pub sig: u8,
    /// point class the injection counts (see vsched::Nested::on)
    #[serde(default)]
    pub on: u8,
}

#[derive(Clone, Debug, Serialize, Deserialize)]
pub struct IterCase {
    /// 0 SignalOnly, 1 WithRawSiginfo, 2 WithOrigin
    pub exf: u8,
    /// 0 wait() loop, 1 forever(), 2 pending() polling, 3 poll_signal with a readiness callback,
    /// 4 a fresh forever() per item (the previous iterator is dropped with its batch partly consumed)
    pub consumer: u8,
    pub polls: u8,
    pub init: Vec<u8>,
    /// threads 1..: deliverers / adders / closers (thread 0 is the consumer, the last thread
    /// is the quiescence observer)
    pub others: Vec<Vec<IOp>>,
    pub nested: Vec<INested>,
    pub schedule: Vec<u8>,
    /// deliveries made by the observer after it closed the instance, i.e. while the consumer
    /// finishes and drops it
    #[serde(default)]
    pub late: Vec<u8>,
    /// before the real instance: a constructor that fails half-way over [SIGWINCH, bad]
    /// (1: bad = 0 -> Err, 2: bad = 200 -> panic, 3: bad = SIGKILL -> panic). Whatever it
    /// registered for SIGWINCH must be gone afterwards (the late deliveries then include SIGWINCH).
    #[serde(default)]
    pub failed_ctor: u8,
    /// consumer modes 0 and 2 only: the very first batch (`pending()`) is handed to a second
    /// thread which drains it at a time of the schedule's choosing, concurrently with the
    /// consumer's own scans (a `Pending` does not borrow the instance and is `Send`; several
    /// readers are documented as safe)
    #[serde(default)]
    pub handoff: bool,
    /// run-length factor of the schedule (vsched::Config::stretch): iterator runs have several
    /// hundred choice points (each scan is 129 loads), far more than the schedule has bytes
    #[serde(default)]
    pub stretch: u8,
    /// the watched signals were first taken over by plain (information-less) actions of the
    /// application, before any iterator existed
    #[serde(default)]
    pub plain_first: bool,
    /// vsched::Config::hold: (thread, k-th pointer-valued load, steps to stay away)
    #[serde(default)]
    pub hold: Option<(u8, u8, u16)>,
    /// the application registered an action of its own on every watched signal and removed it
    /// again before the instance existed; once the instance is up it calls unregister with those
    /// old ids a second time (documented as a no-op)
    #[serde(default)]
    pub stale_unregister: bool,
    /// consumer mode 3 only (the instance is built over a harness socket pair): 0 stream,
    /// 1 datagram, 2 seqpacket - `with_pipe` only asks for send/recv support, and the self-pipe
    /// module documents all three kinds
    #[serde(default)]
    pub pipe_kind: u8,
}

pub fn strategy(with_close: bool) -> BoxedStrategy<IterCase> {
    let op = if with_close {
        prop_oneof![
            6 => (0u8..3).prop_map(|sig| IOp::Deliver { sig }),
            1 => (0u8..3, 4u8..8).prop_map(|(sig, n)| IOp::Burst { sig, n }),
            1 => (0u8..3).prop_map(|sig| IOp::AddSignal { sig }),
            1 => (0u8..3, 2u8..7).prop_map(|(n, times)| IOp::AddRejected { n, times }),
            3 => Just(IOp::Close),
            2 => Just(IOp::IsClosed),
        ]
        .boxed()
    } else {
        prop_oneof![
            8 => (0u8..3).prop_map(|sig| IOp::Deliver { sig }),
            2 => (0u8..3, 4u8..8).prop_map(|(sig, n)| IOp::Burst { sig, n }),
            1 => (0u8..3).prop_map(|sig| IOp::AddSignal { sig }),
            1 => (0u8..3, 2u8..7).prop_map(|(n, times)| IOp::AddRejected { n, times }),
            1 => Just(IOp::IsClosed),
        ]
        .boxed()
    };
    (
        0u8..3,
        0u8..5,
        1u8..5,
        vec(0u8..3, 1..3),
        vec(vec(op, 1..7), 1..4),
        vec(
            prop_oneof![
                2 => (0usize..4, 1u32..60, 0u8..3).prop_map(|(t, at, sig)| (t, at, sig, 0u8)),
                1 => (Just(0usize), 60u32..700, 0u8..3).prop_map(|(t, at, sig)| (t, at, sig, 0u8)),
                // targeted at the consumer: its k-th raw cell access / drain / blocking-read entry
                3 => (Just(0usize), 1u32..8, 0u8..3, 1u8..4).prop_map(|(t, at, sig, on)| (t, at, sig, on)),
            ],
            0..4,
        ),
        schedule_strategy(200),
        prop_oneof![1 => Just(vec![]), 1 => vec(0u8..3, 1..5)],
        prop_oneof![3 => Just(0u8), 1 => 1u8..4],
        prop::bool::weighted(0.5),
        (
            prop_oneof![2 => Just(1u8), 1 => Just(2u8), 2 => Just(4u8), 1 => Just(8u8)],
            prop::bool::weighted(0.25),
            prop::option::weighted(0.35, (prop_oneof![3 => Just(0u8), 1 => 0u8..4], 1u8..12, prop_oneof![1 => 20u16..80, 1 => 80u16..400])),
            prop::bool::weighted(0.2),
        ),
    )
        .prop_map(|(exf, consumer, polls, mut init, mut others, nested, schedule, late, failed_ctor, handoff, (stretch, plain_first, hold, stale_unregister))| {
            // one case in eight: two threads add the same, not yet watched signal at the same time
            // (derived from values already drawn, so that shrinking stays monotone)
            if schedule.len() % 8 == 3 {
                let sig = polls % 3;
                init.retain(|s| *s % 3 != sig);
                if init.is_empty() {
                    init.push((sig + 1) % 3);
                }
                if others.len() < 2 {
                    others.push(vec![]);
                }
                others[0].insert(0, IOp::AddSignal { sig });
                others[1].insert(0, IOp::AddSignal { sig });
            }
            // another case in eight: one thread adds a signal nobody watches yet while another
            // thread is already delivering it
            if schedule.len() % 8 == 5 {
                let sig = polls % 3;
                init.retain(|s| *s % 3 != sig);
                if init.is_empty() {
                    init.push((sig + 1) % 3);
                }
                if others.len() < 2 {
                    others.push(vec![]);
                }
                others[0].insert(0, IOp::AddSignal { sig });
                others[1].insert(0, IOp::Deliver { sig });
                others[1].insert(1, IOp::Deliver { sig });
            }
            let n = others.len() + 1;
            let nested = nested.into_iter().map(|(t, at, sig, on)| INested { thread: t % n, at, sig, on }).collect();
            // derived from values already drawn (keeps the random stream of every other field)
            let pipe_kind = if consumer % 5 == 3 { (polls + exf + schedule.len() as u8) % 3 } else { 0 };
            IterCase { exf, consumer, polls, init, others, nested, schedule, late, failed_ctor, handoff, stretch, plain_first, hold, stale_unregister, pipe_kind }
        })
        .boxed()
}

trait Rec {
    fn sig(&self) -> c_int;
    fn id(&self) -> i64;
    /// Some(description) if the record is not a faithful copy of the information of the
    /// delivery whose id it carries
    fn unfaithful(&self) -> Option<String> {
        None
    }
}
impl Rec for c_int {
    fn sig(&self) -> c_int {
        *self
    }
    fn id(&self) -> i64 {
        -1
    }
}
impl Rec for libc::siginfo_t {
    fn sig(&self) -> c_int {
        self.si_signo
    }
    fn id(&self) -> i64 {
        crate::reg::info_id(self) as i64
    }
    fn unfaithful(&self) -> Option<String> {
        crate::reg::info_mismatch(self).map(|off| format!("raw record differs from the delivered siginfo_t at byte offset {}", off))
    }
}
impl Rec for Origin {
    fn sig(&self) -> c_int {
        self.signal
    }
    fn id(&self) -> i64 {
        self.process.as_ref().map_or(-2, |p| p.pid as i64)
    }
    fn unfaithful(&self) -> Option<String> {
        if !SIGS.contains(&self.signal) && self.signal != libc::SIGWINCH {
            return Some(format!("origin reports signal number {}, which was never delivered", self.signal));
        }
        // judged against the independent decoder of C17 for the code this delivery carried
        let got = crate::c17::cause_label(&self.cause);
        match &self.process {
            // the anonymous sender: which delivery it was cannot be told, but what it says must
            // be exactly "sent by a process, pid 0, uid 0"
            Some(p) if p.pid == 0 => {
                if got != "Sent(User)" || p.uid != 0 {
                    return Some(format!("origin reports cause {} with process {:?} for a sender with pid 0", got, p));
                }
                None
            }
            Some(p) => {
                let code = crate::reg::code_of(p.pid as i32);
                let (want, has) = crate::c17::reference(self.signal, code);
                if !has || got != want {
                    return Some(format!("origin reports cause {} with process {:?}; the delivery carried si_code {} (expected {}{})", got, p, code, want, if has { "" } else { ", no process" }));
                }
                if p.uid != crate::reg::info_uid(p.pid as i32) {
                    return Some(format!("origin reports uid {} for sender {}, the delivery carried uid {}", p.uid, p.pid, crate::reg::info_uid(p.pid as i32)));
                }
                None
            }
            // which delivery it was cannot be told without a process; the only process-less
            // records the simulated kernel produces are the small positive codes -> Unknown
            None if got == "Unknown" => None,
            None => Some(format!("origin reports cause {} without a process", got)),
        }
    }
}

const SYNC_DELIVERIES_DONE: u32 = 7;

fn second_consumer(case: &IterCase) -> bool {
    has_second_consumer(case)
}

fn yielded<R: Rec>(r: &R, phase: i64) {
    vsched::mark("yield", r.sig() as i64, r.id());
    if let Some(why) = r.unfaithful() {
        vsched::violate("C10/record", format!("yielded record of signal {} (sender id {}) is not a faithful copy: {}", r.sig(), r.id(), why));
        vsched::violate("C17/stale-info", format!("reported origin of a delivery of signal {} does not match the information the kernel supplied: {}", r.sig(), why));
    }
    let _ = phase;
}

const SYNC_BATCH: u32 = 8;
/// at most this many batches are handed to the second consumer in one case
const MAX_HANDOFF: u32 = 6;
type Batch = Arc<std::sync::Mutex<std::collections::VecDeque<Box<dyn FnOnce() + Send>>>>;

/// Consumer side of the hand-off: every other batch goes to the second consumer.
struct Handoff {
    on: bool,
    queue: Batch,
    given: u32,
    turn: u32,
}
impl Handoff {
    /// true if the batch was handed over (the caller must not drain it)
    fn maybe_give<I>(&mut self, p: I) -> Option<I>
    where
        I: Iterator + Send + std::fmt::Debug + 'static,
        I::Item: Rec,
    {
        self.turn += 1;
        if !self.on || self.given >= MAX_HANDOFF || self.turn % 2 == 0 {
            return Some(p);
        }
        let fmt_first = self.given % 2 == 1;
        self.queue.lock().unwrap().push_back(Box::new(move || {
            if fmt_first {
                // diagnostics are allowed to look at a batch (and through it at the instance's
                // slots) at any time; they must not disturb a receiver on another thread
                let text = format!("{:?}", p);
                vsched::mark("debug-formatted", text.len() as i64, 0);
            }
            for r in p {
                yielded(&r, 0);
            }
        }));
        vsched::sync_signal(SYNC_BATCH + self.given);
        self.given += 1;
        None
    }
    /// release the second consumer from the hand-offs that never happened
    fn finish(&mut self) {
        if self.on {
            for i in self.given..MAX_HANDOFF {
                vsched::sync_signal(SYNC_BATCH + i);
            }
            self.given = MAX_HANDOFF;
        }
    }
}

pub fn has_second_consumer(case: &IterCase) -> bool {
    case.handoff && matches!(case.consumer % 5, 0 | 2)
}

fn consumer_body<E>(case: &IterCase, rd: UnixStream, wr: UnixStream, handle_out: std::sync::mpsc::Sender<Handle>, batch: Batch)
where
    E: Exfiltrator + Default,
    E::Output: Rec + Send,
{
    let init: Vec<c_int> = case.init.iter().map(|s| SIGS[*s as usize % 3]).collect();
    let read_fd = rd.as_raw_fd();
    if case.plain_first {
        for s in SIGS.iter() {
            let _ = unsafe { signal_hook_registry::register(*s, || {}) };
        }
        vsched::mark("plain-actions-first", 0, 0);
    }
    let mut old_ids: Vec<signal_hook_registry::SigId> = Vec::new();
    if case.stale_unregister {
        for s in SIGS.iter() {
            if let Ok(id) = unsafe { signal_hook_registry::register(*s, || {}) } {
                signal_hook_registry::unregister(id);
                old_ids.push(id);
            }
        }
    }
    if case.failed_ctor != 0 {
        let bad = match case.failed_ctor {
            1 => 0,
            2 => 200,
            _ => libc::SIGKILL,
        };
        let c = vsched::call("failed-new", bad as i64, 0);
        let r = std::panic::catch_unwind(|| SignalsInfo::<E>::new(&[libc::SIGWINCH, bad]).map(|_| ()));
        let ok = matches!(r, Ok(Ok(())));
        vsched::ret(c, ok as i64);
        vsched::mark("failed-ctor-done", ok as i64, 0);
    }
    let c = vsched::call("new", 0, 0);
    for s in &init {
        vsched::mark("add-call", *s as i64, 0);
    }
    match case.consumer % 5 {
        0 | 1 | 2 | 4 => {
            // SignalsInfo owns its own socket pair; the harness pair is unused
            drop((rd, wr));
            let mut sigs = SignalsInfo::<E>::new(&init).expect("SignalsInfo::new");
            for s in &init {
                vsched::mark("add-ret", *s as i64, 1);
            }
            vsched::ret(c, 0);
            handle_out.send(sigs.handle()).unwrap();
            for id in old_ids.drain(..) {
                if signal_hook_registry::unregister(id) {
                    vsched::violate("C05/ret@unregister", "a second unregister of an id whose action had been removed long ago returned true".into());
                }
            }
            vsched::mark("stale-unregister-done", 0, 0);
            let mut ho = Handoff { on: has_second_consumer(case), queue: batch, given: 0, turn: 0 };
            // the very first batch always goes over (scanned at a time of the schedule's choosing)
            if ho.on {
                if let Some(p) = ho.maybe_give(sigs.pending()) {
                    for r in p {
                        yielded(&r, 0);
                    }
                }
            }
            match case.consumer % 5 {
                4 => loop {
                    // `for sig in &mut signals { ...; break }` over and over: a fresh infinite
                    // iterator per item; what an abandoned iterator had fetched but not handed out
                    // is still stored and must come out of the next one
                    let c = vsched::call("forever", 4, 0);
                    let mut it = sigs.forever();
                    let r = it.next();
                    drop(it);
                    vsched::ret(c, r.is_some() as i64);
                    match r {
                        Some(r) => yielded(&r, 0),
                        None => break,
                    }
                },
                0 => loop {
                    let c = vsched::call("wait", 0, 0);
                    let p = sigs.wait();
                    vsched::ret(c, 0);
                    if let Some(p) = ho.maybe_give(p) {
                        for r in p {
                            yielded(&r, 0);
                        }
                    }
                    if sigs.is_closed() {
                        break;
                    }
                },
                1 => {
                    let c = vsched::call("forever", 0, 0);
                    for r in sigs.forever() {
                        yielded(&r, 0);
                    }
                    vsched::ret(c, 0);
                }
                _ => {
                    for _ in 0..case.polls {
                        let c = vsched::call("pending", 0, 0);
                        let p = sigs.pending();
                        vsched::ret(c, 0);
                        if let Some(p) = ho.maybe_give(p) {
                            for r in p {
                                yielded(&r, 0);
                            }
                        }
                        vsched::body_point(0);
                    }
                    // keeps polling: one more scan once every delivery has finished
                    vsched::sync_wait(SYNC_DELIVERIES_DONE);
                    let c = vsched::call("pending", 1, 0);
                    let p = sigs.pending();
                    vsched::ret(c, 0);
                    for r in p {
                        yielded(&r, 0);
                    }
                    vsched::mark("poller-final-scan-done", 0, 0);
                    // then behave like wait() so that the observer can close it
                    loop {
                        let p = sigs.wait();
                        for r in p {
                            yielded(&r, 0);
                        }
                        if sigs.is_closed() {
                            break;
                        }
                    }
                }
            }
            ho.finish();
            // after close: whatever is still buffered
            vsched::mark("post-close", 0, 0);
            let c = vsched::call("pending", 2, 0);
            let p = sigs.pending();
            vsched::ret(c, 0);
            for r in p {
                yielded(&r, 1);
            }
            // calls that start after close must keep returning promptly
            for k in 0..(case.polls % 3) {
                let c = vsched::call("wait", 2 + k as i64, 0);
                let p = sigs.wait();
                vsched::ret(c, 0);
                for r in p {
                    yielded(&r, 1);
                }
            }
            if case.polls >= 3 {
                let c = vsched::call("forever", 2, 0);
                let n = sigs.forever().count();
                vsched::ret(c, n as i64);
            }
            let c = vsched::call("is_closed", 2, 0);
            let b = sigs.is_closed();
            vsched::ret(c, b as i64);
            let cl = std::panic::catch_unwind(std::panic::AssertUnwindSafe(move || drop(sigs)));
            if cl.is_err() {
                vsched::violate("C11/drop-panic", "dropping the instance panicked".into());
            }
            vsched::mark("instance-dropped", 0, 0);
        }
        _ => {
            // async-style: SignalDelivery over the harness socket pair + poll_signal
            let _ = &batch;
            let mut delivery = SignalDelivery::with_pipe(rd, wr, E::default(), &init).expect("with_pipe");
            for s in &init {
                vsched::mark("add-ret", *s as i64, 1);
            }
            vsched::ret(c, 0);
            handle_out.send(delivery.handle()).unwrap();
            for id in old_ids.drain(..) {
                if signal_hook_registry::unregister(id) {
                    vsched::violate("C05/ret@unregister", "a second unregister of an id whose action had been removed long ago returned true".into());
                }
            }
            vsched::mark("stale-unregister-done", 0, 0);
            {
                let mut it = SignalIterator::new(&mut delivery);
                let mut polls = 0;
                loop {
                    polls += 1;
                    if polls > 200 {
                        vsched::violate("C11/poll-endless", "200 polls without Closed".into());
                        break;
                    }
                    let mut cb_log: Vec<bool> = Vec::new();
                    let c = vsched::call("poll_signal", 0, 0);
                    // once per case (when polls >= 3) the runtime's readiness source reports an
                    // error instead of an answer: the poll must pass it on, not park the task
                    let fail_now = case.polls >= 3 && polls == case.polls as u32;
                    let mut cb_failed = false;
                    let r = it.poll_signal(&mut |read: &mut UnixStream| {
                        vsched::body_point(1);
                        if fail_now && !cb_failed {
                            cb_failed = true;
                            vsched::mark("cb", 9, 0);
                            return Err(std::io::Error::new(std::io::ErrorKind::Other, "readiness source failed"));
                        }
                        let mut b = [0u8; 1];
                        let n = unsafe { libc::recv(read.as_raw_fd(), b.as_mut_ptr() as *mut _, 1, libc::MSG_DONTWAIT) };
                        if n == 1 {
                            vsched::pipe_acquire();
                            cb_log.push(true);
                            vsched::mark("cb", 1, 0);
                            Ok(true)
                        } else if n == 0 {
                            cb_log.push(true);
                            vsched::mark("cb", 2, 0);
                            Ok(true)
                        } else {
                            // would block: the runtime arms the waker
                            cb_log.push(false);
                            vsched::mark("cb", 0, 0);
                            Ok(false)
                        }
                    });
                    match r {
                        PollResult::Signal(o) => {
                            vsched::ret(c, 1);
                            yielded(&o, 0);
                        }
                        PollResult::Pending if cb_failed => {
                            vsched::ret(c, 3);
                            vsched::violate("C11/pending-without-callback", "poll_signal returned Pending although its readiness callback had just failed with an error - no wake-up is armed".into());
                            break;
                        }
                        PollResult::Pending => {
                            let armed = cb_log.last() == Some(&false);
                            vsched::ret(c, if armed { 2 } else { 3 });
                            if !armed {
                                vsched::violate(
                                    "C11/pending-without-callback",
                                    format!("poll_signal returned Pending although its readiness callback {} - no wake-up is armed", if cb_log.is_empty() { "was never consulted" } else { "last answered 'available'" }),
                                );
                                break;
                            }
                            // parked until the runtime sees the descriptor readable
                            vsched::block_fd(read_fd);
                        }
                        PollResult::Closed => {
                            vsched::ret(c, 4);
                            // closed is final: further polls say so again, without blocking
                            for _ in 0..(case.polls % 3) {
                                let c = vsched::call("poll_signal", 1, 0);
                                let r = it.poll_signal(&mut |_read: &mut UnixStream| {
                                    vsched::mark("cb", 0, 0);
                                    Ok(false)
                                });
                                match r {
                                    PollResult::Closed => vsched::ret(c, 4),
                                    PollResult::Signal(o) => {
                                        vsched::ret(c, 1);
                                        yielded(&o, 1);
                                    }
                                    _ => {
                                        vsched::ret(c, 3);
                                        vsched::violate("C11/not-sticky", "poll_signal did not report Closed again after it had reported Closed".into());
                                    }
                                }
                            }
                            break;
                        }
                        PollResult::Err(_) if cb_failed => {
                            // passed on; the instance stays usable and the task polls again
                            vsched::ret(c, 5);
                            vsched::mark("cb-error-passed-on", 0, 0);
                        }
                        PollResult::Err(_) => {
                            vsched::ret(c, 5);
                            vsched::violate("C11/poll-error", "poll_signal returned an error although its readiness callback had not".into());
                            break;
                        }
                    }
                }
            }
            vsched::mark("post-close", 0, 0);
            let c = vsched::call("pending", 2, 0);
            let p = delivery.pending();
            vsched::ret(c, 0);
            for r in p {
                yielded(&r, 1);
            }
            let cl = std::panic::catch_unwind(std::panic::AssertUnwindSafe(move || drop(delivery)));
            if cl.is_err() {
                vsched::violate("C11/drop-panic", "dropping the instance panicked".into());
            }
            vsched::mark("instance-dropped", 0, 0);
        }
    }
}

pub fn execute(case: &IterCase) -> (RunResult, CaseReport) {
    crate::forkrun::ignore_sigpipe();
    let nothers = case.others.len();
    let second = has_second_consumer(case);
    let n = nothers + 2 + second as usize; // consumer + others + observer (+ second consumer)
    let cfg = Config {
        schedule: case.schedule.clone(),
        step_bound: 60_000,
        nested: case.nested.iter().enumerate().map(|(i, x)| Nested { thread: x.thread, at: x.at, id: i as u32, on: x.on }).collect(),
        weak: true,
        log_ops: true,
        abort_unwind: false,
        script: vec![],
        // channel cells are never freed during a run and accesses are physically serialised:
        // go on after a detected race so that its consequences reach the C09/C10 oracles
        abort_on_cell_race: false,
        stretch: case.stretch,
        hold: case.hold.map(|(t, k, n)| (t as usize % (case.others.len() + 1), k as u32, n as u32)),
    };
    let exec = Exec::new(cfg, n);
    {
        let nested = case.nested.clone();
        exec.set_nested_fn(Arc::new(move |k: u32| {
            let x = &nested[k as usize];
            sim_deliver(SIGS[x.sig as usize % 3], false);
        }));
    }
    let (rd, wr) = if case.consumer % 5 == 3 && case.pipe_kind % 3 != 0 {
        // a datagram / seqpacket pair behind the same owner type (only the descriptor matters to
        // the library: it sends and receives with MSG_DONTWAIT)
        use std::os::unix::io::FromRawFd;
        let ty = if case.pipe_kind % 3 == 1 { libc::SOCK_DGRAM } else { libc::SOCK_SEQPACKET };
        let mut fds = [0i32; 2];
        let rc = unsafe { libc::socketpair(libc::AF_UNIX, ty | libc::SOCK_CLOEXEC, 0, fds.as_mut_ptr()) };
        assert_eq!(rc, 0, "socketpair");
        unsafe { (UnixStream::from_raw_fd(fds[0]), UnixStream::from_raw_fd(fds[1])) }
    } else {
        UnixStream::pair().expect("pair")
    };
    let (tx, rx) = std::sync::mpsc::channel::<Handle>();
    let rx = Arc::new(std::sync::Mutex::new(rx));
    let handle_slot: Arc<std::sync::Mutex<Option<Handle>>> = Arc::new(std::sync::Mutex::new(None));
    let get_handle = {
        let rx = rx.clone();
        let slot = handle_slot.clone();
        move || -> Option<Handle> {
            let mut s = slot.lock().unwrap();
            if s.is_none() {
                if let Ok(h) = rx.lock().unwrap().try_recv() {
                    *s = Some(h);
                }
            }
            s.clone()
        }
    };
    let mut bodies: Vec<Box<dyn FnOnce() + Send>> = Vec::new();
    let batch: Batch = Arc::new(std::sync::Mutex::new(std::collections::VecDeque::new()));
    {
        let case = case.clone();
        let batch = batch.clone();
        bodies.push(Box::new(move || match case.exf % 3 {
            0 => consumer_body::<SignalOnly>(&case, rd, wr, tx, batch),
            1 => consumer_body::<WithRawSiginfo>(&case, rd, wr, tx, batch),
            _ => consumer_body::<WithOrigin>(&case, rd, wr, tx, batch),
        }));
    }
    let remaining = Arc::new(std::sync::atomic::AtomicUsize::new(nothers));
    for ops in case.others.iter() {
        let ops = ops.clone();
        let get_handle = get_handle.clone();
        let remaining = remaining.clone();
        bodies.push(Box::new(move || {
            for op in ops.iter() {
                match op {
                    IOp::Deliver { sig } => sim_deliver(SIGS[*sig as usize % 3], false),
                    IOp::Burst { sig, n } => {
                        for _ in 0..*n {
                            sim_deliver(SIGS[*sig as usize % 3], false);
                        }
                    }
                    IOp::AddSignal { sig } => {
                        if let Some(h) = get_handle() {
                            let s = SIGS[*sig as usize % 3];
                            vsched::mark("add-call", s as i64, 0);
                            let c = vsched::call("add_signal", s as i64, 0);
                            let r = std::panic::catch_unwind(std::panic::AssertUnwindSafe(|| h.add_signal(s)));
                            let ok = matches!(r, Ok(Ok(())));
                            vsched::ret(c, ok as i64);
                            vsched::mark("add-ret", s as i64, ok as i64);
                        }
                    }
                    IOp::AddRejected { n, times } => {
                        if let Some(h) = get_handle() {
                            let bad = [65, 127, 33][*n as usize % 3];
                            for _ in 0..*times {
                                let c = vsched::call("add_rejected", bad as i64, 0);
                                let r = std::panic::catch_unwind(std::panic::AssertUnwindSafe(|| h.add_signal(bad)));
                                let code = match r {
                                    Ok(Err(_)) => 0,
                                    Ok(Ok(())) => 1,
                                    Err(_) => 2,
                                };
                                vsched::ret(c, code);
                                if code != 0 {
                                    vsched::violate("C12/outcome", format!("add_signal({}) must return an error (the OS rejects the number); it {}", bad, if code == 1 { "returned Ok" } else { "panicked" }));
                                }
                            }
                        }
                    }
                    IOp::Close => {
                        if let Some(h) = get_handle() {
                            let c = vsched::call("close", 0, 0);
                            h.close();
                            vsched::ret(c, 0);
                        }
                    }
                    IOp::IsClosed => {
                        if let Some(h) = get_handle() {
                            let c = vsched::call("is_closed", 0, 0);
                            let b = h.is_closed();
                            vsched::ret(c, b as i64);
                        }
                    }
                }
            }
            if remaining.fetch_sub(1, std::sync::atomic::Ordering::SeqCst) == 1 {
                vsched::sync_signal(SYNC_DELIVERIES_DONE);
            }
        }));
    }
    {
        // quiescence observer
        let get_handle = get_handle.clone();
        let late = case.late.clone();
        let failed_ctor = case.failed_ctor;
        let slot_for_observer = handle_slot.clone();
        bodies.push(Box::new(move || {
            let blocked = vsched::wait_idle();
            let desc = format!("{:?}", blocked);
            vsched::mark("quiescent", blocked.len() as i64, if desc.contains("BlockedFd") { 1 } else { 0 });
            if let Some(h) = get_handle() {
                let was_closed = h.is_closed();
                vsched::mark("observer-sees-closed", was_closed as i64, 0);
                let c = vsched::call("close", 1, 0);
                h.close();
                vsched::ret(c, 0);
                let c = vsched::call("is_closed", 1, 0);
                let b = h.is_closed();
                vsched::ret(c, b as i64);
                drop(h);
            }
            // nobody but the consumer holds the instance from here on
            *slot_for_observer.lock().unwrap() = None;
            vsched::mark("handles-dropped", 0, 0);
            // the world does not stop sending signals while the instance is torn down
            for s in &late {
                sim_deliver(SIGS[*s as usize % 3], false);
            }
            if failed_ctor != 0 {
                sim_deliver(libc::SIGWINCH, false);
                sim_deliver(libc::SIGWINCH, false);
            }
        }));
    }
    if second {
        let batch = batch.clone();
        bodies.push(Box::new(move || {
            for i in 0..MAX_HANDOFF {
                vsched::sync_wait(SYNC_BATCH + i);
                let f = batch.lock().unwrap().pop_front();
                if let Some(f) = f {
                    let c = vsched::call("drain-batch", i as i64, 0);
                    f();
                    vsched::ret(c, 0);
                }
            }
        }));
    }
    exec.run(bodies);
    let res = exec.finish();
    let rep = analyse(case, &res);
    (res, rep)
}

#[derive(Debug, Clone)]
struct Dl {
    id: i64,
    sig: i64,
    start: usize,
    end: Option<usize>,
    stored: Option<usize>,
    target: i64,
}

pub fn analyse(case: &IterCase, res: &RunResult) -> CaseReport {
    let mut rep = CaseReport::default();
    let log = &res.log;
    for v in &res.violations {
        rep.viol(&v.key, v.msg.clone());
    }
    let mut dels: Vec<Dl> = Vec::new();
    let mut open_del: HashMap<i32, Vec<usize>> = HashMap::new();
    let mut yields: Vec<(usize, i64, i64, usize, bool)> = Vec::new(); // (pos, sig, id, load pos, post-close)
    let mut yield_tid: HashMap<usize, i32> = HashMap::new();
    let mut add_call: BTreeMap<i64, usize> = BTreeMap::new();
    let mut add_ret: BTreeMap<i64, usize> = BTreeMap::new();
    let mut last_op_pos: HashMap<i32, usize> = HashMap::new();
    let mut post_close = false;
    let mut quiescent: Option<usize> = None;
    let mut quiescent_blocked_fd = false;
    let mut closes: Vec<(usize, Option<usize>, bool)> = Vec::new(); // (call, ret, by observer)
    let mut open_calls: HashMap<u32, (usize, &'static str, i64)> = HashMap::new();
    let mut calls: Vec<(&'static str, i64, i32, usize, Option<usize>, i64)> = Vec::new(); // name, a, tid, call, ret, result
    let mut call_idx: HashMap<u32, usize> = HashMap::new();
    let mut cb_in_call: HashMap<usize, Vec<i64>> = HashMap::new();
    let mut cur_poll: Option<usize> = None;
    let mut final_scan_done: Option<usize> = None;
    for (i, r) in log.iter().enumerate() {
        match &r.item {
            Item::Op { .. } => {
                last_op_pos.insert(r.tid, i);
            }
            Item::Mark { name, a, b } => match *name {
                "deliver-start" => {
                    open_del.entry(r.tid).or_default().push(dels.len());
                    dels.push(Dl { id: *a, sig: *b, start: i, end: None, stored: None, target: 0 });
                }
                "deliver-target" => {
                    if let Some(k) = open_del.get(&r.tid).and_then(|s| s.last()) {
                        dels[*k].target = *b;
                    }
                }
                "deliver-end" => {
                    if let Some(k) = open_del.get_mut(&r.tid).and_then(|s| s.pop()) {
                        dels[k].end = Some(i);
                    }
                }
                "yield" => {
                    yields.push((i, *a, *b, last_op_pos.get(&r.tid).cloned().unwrap_or(i), post_close));
                    yield_tid.insert(i, r.tid);
                }
                "add-call" => {
                    add_call.entry(*a).or_insert(i);
                }
                "add-ret" => {
                    if *b == 1 {
                        add_ret.entry(*a).or_insert(i);
                    }
                }
                "post-close" => post_close = true,
                "quiescent" => {
                    quiescent = Some(i);
                    quiescent_blocked_fd = *b == 1;
                }
                "cb" => {
                    if let Some(k) = cur_poll {
                        cb_in_call.entry(k).or_default().push(*a);
                    }
                }
                "poller-final-scan-done" => final_scan_done = Some(i),
                _ => {}
            },
            Item::Event { ev: Event::Stored, .. } => {
                if let Some(k) = open_del.get(&r.tid).and_then(|s| s.last()) {
                    dels[*k].stored = Some(i);
                }
            }
            Item::Call { id, name, a, .. } => {
                open_calls.insert(*id, (i, name, *a));
                call_idx.insert(*id, calls.len());
                calls.push((name, *a, r.tid, i, None, 0));
                if *name == "poll_signal" {
                    cur_poll = Some(calls.len() - 1);
                }
                if *name == "close" {
                    closes.push((i, None, *a == 1));
                }
            }
            Item::Ret { id, r: rv } => {
                if let Some(k) = call_idx.get(id) {
                    calls[*k].4 = Some(i);
                    calls[*k].5 = *rv;
                    if calls[*k].0 == "close" {
                        if let Some(c) = closes.iter_mut().rev().find(|c| c.0 == calls[*k].3) {
                            c.1 = Some(i);
                        }
                    }
                    if calls[*k].0 == "poll_signal" {
                        cur_poll = None;
                    }
                }
            }
            _ => {}
        }
    }
    let completed = res.outcome == Outcome::Completed;
    rep.aborted = !completed;
    for r in log.iter() {
        if let Item::Panic { msg } = &r.item {
            if r.tid == 0 {
                for k in ["C09/consumer-panic", "C10/consumer-panic", "C11/consumer-panic"] {
                    rep.viol(k, format!("the consumer panicked: {}", msg));
                }
                if msg.contains("channel.rs") {
                    rep.viol("C07/channel-panic", format!("the consumer panicked inside the channel of an info-carrying exfiltrator (its memory was not what the channel protocol guarantees): {}", msg));
                }
                if msg.contains("Full slot with nothing") {
                    rep.viol("C08/panic=full-slot-empty", format!("recv on an exfiltrator's channel panicked: {}", msg));
                }
                if msg.contains("No empty slot") {
                    rep.viol("C08/panic=no-empty-slot", format!("a channel operation of an exfiltrator panicked: {}", msg));
                }
            }
        }
    }
    let first_close_call = closes.iter().map(|c| c.0).min();
    let first_close_ret = closes.iter().filter_map(|c| c.1).min();
    let user_close = closes.iter().any(|c| !c.2);

    // ---- C01 (removal by dropping the owner): once the instance and every handle are gone, none
    // of its actions may run any more
    {
        let inst = log.iter().position(|r| matches!(&r.item, Item::Mark { name, .. } if *name == "instance-dropped"));
        let hand = log.iter().position(|r| matches!(&r.item, Item::Mark { name, .. } if *name == "handles-dropped"));
        if let (Some(a), Some(b)) = (inst, hand) {
            let gone = a.max(b);
            for d in &dels {
                if let Some(s) = d.stored {
                    if d.start > gone {
                        rep.viol("C01/ran-after-removal", format!("delivery {} of signal {} ran an action of an iterator instance that had been dropped together with all its handles (store at log position {} > {})", d.id, d.sig, s, gone));
                    }
                }
            }
            if dels.iter().any(|d| d.start > gone) {
                rep.class("delivery-after-instance-drop");
            }
            for d in &dels {
                if d.stored.is_some() && d.start > gone {
                    rep.viol("C12/leak", format!("after the instance and all its handles were gone, delivery {} of signal {} still ran a registration the instance had made", d.id, d.sig));
                }
            }
            if !completed {
                rep.viol("C12/teardown-stuck", format!("the instance and all its handles were dropped, yet the run never came to an end ({:?}): the removal of what the instance registered is stuck", res.outcome));
            }
        } else if hand.is_some() && inst.is_none() && log.iter().any(|r| matches!(&r.item, Item::Mark { name, .. } if *name == "post-close")) && !completed {
            // every other owner is gone, the consumer started to let go of the instance and the
            // run never got to the end of that drop
            rep.viol("C12/teardown-stuck", format!("dropping the instance (last owner) never finished: {:?}", res.outcome));
        }
    }

    {
        if let Some(fpos) = log.iter().position(|r| matches!(&r.item, Item::Mark { name, .. } if *name == "failed-ctor-done")) {
            rep.class("failed-constructor-first");
            for d in dels.iter().filter(|d| d.sig == libc::SIGWINCH as i64) {
                if let Some(s) = d.stored {
                    if d.start > fpos {
                        rep.viol("C01/ran-after-removal", format!("delivery {} of SIGWINCH ran an action registered by a constructor that had failed and whose half-built instance was dropped (store at log position {})", d.id, s));
                    }
                }
            }
        }
    }

    // ---- C10: only real, registered, not-yet-reported deliveries
    {
        let mut yielded_so_far: HashMap<i64, u64> = HashMap::new();
        let mut seen_ids: BTreeSet<i64> = BTreeSet::new();
        // order is judged per consuming thread: two threads draining concurrently log their
        // yields in an order that says nothing about the order in which they took the records
        let mut last_rec_delivery: HashMap<(i64, i32), i64> = HashMap::new();
        let mut processless: HashMap<i64, u64> = HashMap::new();
        let mut anonymous_seen: HashMap<i64, u64> = HashMap::new();
        for (pos, sig, id, _load, _pc) in &yields {
            let ytid = yield_tid.get(pos).cloned().unwrap_or(0);
            // watched?
            match add_call.get(sig) {
                Some(ac) if *ac < *pos => {}
                _ => rep.viol(&format!("C10/unwatched={}", sig), format!("the iterator yielded signal {} which it was never asked to watch", sig)),
            }
            let n = yielded_so_far.entry(*sig).or_insert(0);
            *n += 1;
            let begun = dels.iter().filter(|d| d.sig == *sig && d.start < *pos && add_call.get(sig).map_or(false, |ac| d.end.map_or(true, |e| e > *ac))).count() as u64;
            if *n > begun {
                rep.viol("C10/over-report", format!("signal {} yielded {} times although only {} deliveries of it had begun", sig, n, begun));
            }
            if case.exf % 3 != 0 {
                match dels.iter().find(|d| d.id == *id) {
                    Some(d) if d.sig == *sig && d.start < *pos => {
                        if !seen_ids.insert(*id) {
                            rep.viol("C10/record", format!("delivery {} of signal {} produced two records", id, sig));
                            if case.exf % 3 == 2 {
                                rep.viol("C17/process", format!("two reported origins of signal {} carry the sender of delivery {}: one of them was handed out for a different delivery, whose real sender is thereby misreported (and lost)", sig, id));
                            }
                        }
                        // order within one signal
                        if let Some(prev) = last_rec_delivery.get(&(*sig, ytid)) {
                            if let Some(pd) = dels.iter().find(|x| x.id == *prev) {
                                if d.end.map_or(false, |e| e < pd.start) {
                                    rep.viol("C10/record-order", format!("record of delivery {} came out after that of delivery {} which began after it had ended", id, prev));
                                }
                            }
                        }
                        last_rec_delivery.insert((*sig, ytid), *id);
                    }
                    _ if case.exf % 3 == 2 && *id == 0 => {
                        // an origin with the anonymous sender: one of the begun anonymous deliveries
                        let n = anonymous_seen.entry(*sig).or_insert(0u64);
                        *n += 1;
                        let begun = dels.iter().filter(|d| d.sig == *sig && d.start < *pos && crate::reg::anonymous(d.id as i32)).count() as u64;
                        if *n > begun {
                            rep.viol("C10/record", format!("{} origin records with sender pid 0 for signal {} although only {} such deliveries had begun", n, sig, begun));
                        }
                    }
                    _ if case.exf % 3 == 2 && *id == -2 => {
                        // an origin without a process: one of the begun deliveries of that signal
                        // that carried a process-less code, each at most once
                        let n = processless.entry(*sig).or_insert(0u64);
                        *n += 1;
                        let begun = dels.iter().filter(|d| d.sig == *sig && d.start < *pos && !crate::c17::reference(*sig as i32, crate::reg::code_of(d.id as i32)).1).count() as u64;
                        if *n > begun {
                            rep.viol("C10/record", format!("{} process-less origin records of signal {} although only {} deliveries without a sender had begun", n, sig, begun));
                        }
                    }
                    _ => {
                        rep.viol("C10/record", format!("yielded record (signal {}, sender id {}) matches no delivery that had begun", sig, id));
                        if case.exf % 3 == 2 {
                            rep.viol("C17/stale-info", format!("a reported origin (signal {}, sender {}) matches nothing the kernel supplied for any delivery that had begun: stale or overlapping memory", sig, id));
                        }
                    }
                }
            }
        }
    }

    // A delivery whose info-carrying action found "no free slot" only because its Relaxed load of
    // the channel's empty-queue word returned a stale value (allowed by the declared orderings:
    // nothing orders the consumer's slot returns before a later delivery on another thread). The
    // channel is entitled to discard then (C06: the values are "not yet completely received by a
    // receive ordered before that send"), and C09 quantifies over interleavings, not over
    // weak-memory outcomes - so the iterator owes nothing for such a delivery.
    let mut stale_discard: BTreeSet<i64> = BTreeSet::new();
    if case.exf % 3 != 0 {
        use std::sync::atomic::Ordering as O;
        // the empty-queue words: where deliveries do their Acquire CAS (dequeue of a free slot)
        // and where consumers do their Release CAS (return of a slot)
        let mut empty_words: BTreeSet<usize> = BTreeSet::new();
        for r in log.iter() {
            if let Item::Op { kind: Kind::Cas | Kind::CasWeak, addr, ord, ok: true, .. } = &r.item {
                if (r.depth > 0 && *ord == O::Acquire) || (r.depth == 0 && *ord == O::Release) {
                    empty_words.insert(*addr);
                }
            }
        }
        for d in dels.iter().filter(|d| d.target == 1) {
            let end = d.end.unwrap_or(log.len());
            let tid = log[d.start].tid;
            let wrote = log[d.start..end].iter().any(|r| r.tid == tid && matches!(&r.item, Item::Event { ev: Event::CellWrite, .. }));
            let stale_view = log[d.start..end].iter().any(|r| r.tid == tid && matches!(&r.item, Item::Op { kind: Kind::Load, addr, stale, .. } if *stale > 0 && empty_words.contains(addr)));
            if !wrote && stale_view {
                stale_discard.insert(d.id);
            }
        }
        if !stale_discard.is_empty() {
            rep.class("record-discarded-on-stale-view-of-free-slots");
        }
    }

    // ---- C09: nothing delivered and unreported at quiescence
    let mut nt09 = false;
    if completed {
        if let Some(q) = quiescent {
            // the consumer's obligations end where the application closed the instance
            let horizon = if user_close { first_close_call.unwrap_or(q).min(q) } else { q };
            for d in dels.iter().filter(|d| d.target == 1) {
                let (stored, end) = match (d.stored, d.end) {
                    (Some(s), Some(e)) => (s, e),
                    _ => continue,
                };
                if end > horizon || stale_discard.contains(&d.id) {
                    continue;
                }
                // The instance's own action ran for this delivery (it stored the signal and sent a
                // wake-up byte), so the instance has accepted it - also when that happened while
                // the add_signal that registered the action was still returning.
                let _ = &add_ret;
                let reported = yields.iter().any(|(pos, sig, _, load, _)| *sig == d.sig && *load > stored && *pos < q);
                if !reported {
                    let late = yields.iter().any(|(pos, sig, _, _, _)| *sig == d.sig && *pos > q);
                    rep.viol(
                        "C09/unreported@quiescence",
                        format!(
                            "delivery {} of watched signal {} finished, every thread then came to rest ({}), and the consumer had not obtained the signal{}",
                            d.id,
                            d.sig,
                            if quiescent_blocked_fd { "consumer blocked on the self-pipe" } else { "consumer parked/finished" },
                            if late { " (it only came out after the harness closed the instance)" } else { "" }
                        ),
                    );
                }
            }
        }
    }
    // a delivery of a signal the instance watches (its add had returned before the delivery began)
    // in which no action of the instance stored anything: the instance's registration is gone
    // although the instance is alive and open
    if completed {
        if let Some(q) = quiescent {
            let horizon = if user_close { first_close_call.unwrap_or(q).min(q) } else { q };
            for d in dels.iter().filter(|d| d.target == 1 && d.stored.is_none()) {
                if let (Some(ar), Some(e)) = (add_ret.get(&d.sig), d.end) {
                    if *ar < d.start && e < horizon {
                        rep.viol("C09/action-missing", format!("delivery {} of watched signal {} ran the library's dispatcher but no action of the (open, live) instance: its registration has been removed behind its back", d.id, d.sig));
                    }
                }
            }
        }
    }
    if case.stale_unregister {
        rep.class("stale-unregister-after-instance-creation");
    }
    // non-trivial C09: a Stored landed while the consumer was inside a call, or the consumer blocked and was woken
    let consumer_blocked = log.iter().any(|r| r.tid == 0 && matches!(r.item, Item::Blocked { what: "fd", .. }));
    for d in &dels {
        if let Some(s) = d.stored {
            if calls.iter().any(|c| c.2 == 0 && matches!(c.0, "wait" | "pending" | "forever" | "poll_signal") && c.3 < s && c.4.map_or(true, |r| r > s)) {
                nt09 = true;
                rep.class("stored-during-consumer-call");
            }
        }
    }
    if consumer_blocked && !dels.is_empty() {
        nt09 = true;
        rep.class("consumer-blocked");
    }
    // C10 non-trivial
    let mut nt10 = false;
    {
        // scans = consumer calls; collation / overflow = >=2 / >=6 deliveries of one signal between two yields
        let mut per_sig: HashMap<i64, Vec<usize>> = HashMap::new();
        for d in &dels {
            if let Some(s) = d.stored {
                per_sig.entry(d.sig).or_default().push(s);
            }
        }
        for (sig, st) in per_sig {
            let ys: Vec<usize> = yields.iter().filter(|y| y.1 == sig).map(|y| y.3).collect();
            let mut prev = 0usize;
            for y in ys.iter().chain(std::iter::once(&usize::MAX)) {
                let k = st.iter().filter(|s| **s > prev && **s < *y).count();
                if k >= 2 {
                    nt10 = true;
                    rep.class("collation");
                }
                if k >= 6 {
                    rep.class("overflow");
                }
                prev = *y;
            }
        }
        if nt09 {
            nt10 = true;
        }
    }

    // ---- C11
    let mut nt11 = false;
    // (1) sticky
    if let Some(cr) = first_close_ret {
        for c in calls.iter().filter(|c| c.0 == "is_closed") {
            if c.3 > cr && c.4.is_some() && c.5 != 1 {
                rep.viol("C11/not-sticky", "is_closed() returned false after a close() had returned".into());
            }
        }
    }
    // (2) nobody stays blocked after close; calls after close are bounded and do not block
    match &res.outcome {
        Outcome::Deadlock(b) if first_close_ret.is_some() => {
            rep.viol("C11/blocked-after-close", format!("after close() returned, threads stayed blocked: {:?}", b));
        }
        Outcome::StepBound if first_close_ret.is_some() => {
            rep.viol("C11/unbounded-after-close", "after close() the run did not finish within the step bound".into());
        }
        _ => {}
    }
    if let Some(cr) = first_close_ret {
        for c in calls.iter().filter(|c| c.2 == 0 && matches!(c.0, "wait" | "pending" | "poll_signal") && c.3 > cr) {
            let end = c.4.unwrap_or(log.len());
            let blocked = log[c.3..end].iter().any(|r| r.tid == 0 && matches!(r.item, Item::Blocked { what: "fd", .. }));
            if blocked {
                rep.viol("C11/blocked-after-close", format!("{}() started after close() had returned and still blocked on the self-pipe", c.0));
            }
            let steps = log[c.3..end].iter().filter(|r| r.tid == 0 && matches!(r.item, Item::Op { .. })).count();
            if steps > 1500 {
                rep.viol("C11/unbounded-after-close", format!("{}() after close took {} steps", c.0, steps));
            }
        }
    }
    // a close() by the application has returned, every thread has come to rest - and the consumer
    // is still blocked on the self-pipe (the observer's own close, which comes next, would paper
    // over it)
    if let (Some(q), true) = (quiescent, quiescent_blocked_fd) {
        if closes.iter().any(|c| !c.2 && c.1.map_or(false, |r| r < q)) {
            rep.viol("C11/blocked-after-close", "close() had returned, no thread could run any more, and the consumer was still blocked on the self-pipe (the wake-up of that close was lost or skipped)".into());
        }
    }
    // C18: mutators (add_signal, drop) and deliveries must not wedge each other
    match &res.outcome {
        Outcome::Deadlock(b) if b.iter().any(|(_, s)| s.contains("BlockedMutex")) => {
            rep.viol("C18/deadlock", format!("iterator add/drop calls deadlocked: {:?}", b));
        }
        Outcome::StepBound => rep.viol("C18/step-bound", "iterator scenario did not finish within the step bound".into()),
        _ => {}
    }
    // (3) poll contract is checked on-line (C11/pending-without-callback)
    for cl in &closes {
        if calls.iter().any(|c| c.2 == 0 && matches!(c.0, "wait" | "pending" | "forever" | "poll_signal" | "new") && c.3 < cl.0 && c.4.map_or(true, |r| r > cl.0)) {
            nt11 = true;
            rep.class("close-during-consumer-call");
        }
    }
    if user_close {
        rep.class("application-close");
    }
    let _ = final_scan_done;
    rep.class(["SignalOnly", "WithRawSiginfo", "WithOrigin"][case.exf as usize % 3]);
    rep.class(["wait-loop", "forever", "pending-polling", "poll_signal", "forever-one-item-at-a-time"][case.consumer as usize % 5]);
    if res.nested_run > 0 {
        rep.class("nested-delivery");
    }
    rep.count("steps", res.steps);
    rep.count("switches", res.switches);
    rep.count("deliveries", dels.len() as u64);
    rep.count("yields", yields.len() as u64);
    let nt01 = !case.late.is_empty() || case.failed_ctor != 0;
    rep.nontrivial_by = vec![("C09".into(), nt09), ("C10".into(), nt10), ("C11".into(), nt11), ("C03".into(), nt09), ("C01".into(), nt01), ("C18".into(), log.iter().any(|r| matches!(r.item, Item::Blocked { what: "mutex", .. })))];
    rep.nontrivial = nt09 || nt10 || nt11;
    // C13 in iterator scenarios: one instance, every watched signal registered once, so a delivery
    // makes exactly one wake-up attempt on the instance's self-pipe
    for d in dels.iter().filter(|d| d.target == 1 && d.stored.is_some()) {
        let end = d.end.unwrap_or(log.len());
        let tid = log[d.start].tid;
        let depth_in = log[d.start].depth + 1;
        let wakes = log[d.start..end].iter().filter(|r| r.tid == tid && r.depth == depth_in && matches!(&r.item, Item::Point { kind: Kind::PipeWake, .. })).count();
        let stores = log[d.start..end].iter().filter(|r| r.tid == tid && r.depth == depth_in && matches!(&r.item, Item::Event { ev: Event::Stored, .. })).count();
        if d.end.is_some() && (wakes != 1 || stores != 1) {
            rep.viol("C13/count", format!("delivery {} of signal {} stored {} times and made {} wake-up attempts on the self-pipe of an instance that watches the signal once", d.id, d.sig, stores, wakes));
        }
    }
    if case.plain_first {
        rep.class("plain-actions-first");
    }
    if second_consumer(case) {
        rep.class("concurrent-batch-consumers");
    }
    // C03 on iterator actions: reuse the op-kind rule inside deliveries
    for d in dels.iter().filter(|d| d.target == 1) {
        let end = d.end.unwrap_or(log.len());
        let tid = log[d.start].tid;
        let depth_in = log[d.start].depth + 1;
        let mut steps = 0;
        for r in &log[d.start..end] {
            if r.tid != tid || r.depth != depth_in {
                continue;
            }
            match &r.item {
                Item::Op { .. } => steps += 1,
                Item::Lock { .. } | Item::TryLock { .. } => rep.viol("C03/op-kind=lock", format!("delivery {} took a lock inside an iterator action", d.id)),
                Item::Blocked { what, .. } => rep.viol("C03/op-kind=blocked", format!("delivery {} blocked on {}", d.id, what)),
                Item::Point { kind, .. } if matches!(kind, Kind::Yield | Kind::Spin | Kind::BlockReadable) => rep.viol("C03/op-kind=wait", format!("delivery {} executed {:?}", d.id, kind)),
                _ => {}
            }
        }
        if steps > 8 + 14 {
            rep.viol("C03/steps", format!("delivery {} with an iterator action took {} atomic steps", d.id, steps));
        }
    }
    let shape: Vec<(i32, u8, i64)> = log
        .iter()
        .filter_map(|r| match &r.item {
            Item::Call { name, .. } => Some((r.tid, 1, name.len() as i64)),
            Item::Ret { r: rv, .. } => Some((r.tid, 2, *rv)),
            Item::Mark { name, a, .. } if matches!(*name, "deliver-start" | "deliver-end" | "yield" | "quiescent") => Some((r.tid, 3, *a % 64)),
            Item::Event { ev: Event::Stored, .. } => Some((r.tid, 4, 0)),
            _ => None,
        })
        .collect();
    rep.hash = hash_of(&(shape, case.exf, case.consumer));
    rep.sample = Some(render(case, res));
    rep
}

fn render(case: &IterCase, res: &RunResult) -> Value {
    let mut lines: Vec<String> = Vec::new();
    let mut names: HashMap<usize, usize> = HashMap::new();
    for r in res.log.iter() {
        let s = match &r.item {
            Item::Call { name, a, b, .. } => format!("call {}({},{})", name, a, b),
            Item::Ret { r: v, .. } => format!("ret -> {}", v),
            Item::Op { kind, addr, old, new, ok, stale, .. } => {
                let n = names.len();
                let a = *names.entry(*addr).or_insert(n);
                format!("{:?} @{} {:#x}->{:#x} ok={} stale={}", kind, a, old & 0xffff, new & 0xffff, ok, stale)
            }
            Item::Event { ev, a, .. } => {
                if matches!(ev, Event::SectionOpen | Event::SectionClose | Event::Alloc) {
                    continue;
                }
                format!("event {:?} {}", ev, a % 1000)
            }
            Item::Mark { name, a, b } => {
                if name.ends_with("-args") || *name == "deliver-target" {
                    continue;
                }
                format!("{} {} {}", name, a, b)
            }
            Item::Lock { .. } | Item::Unlock { .. } => continue,
            other => format!("{:?}", other),
        };
        lines.push(format!("{:>4} t{} d{} {}", r.step, r.tid, r.depth, s));
        if lines.len() > std::env::var("VERIF_TRACE_MAX").ok().and_then(|x| x.parse().ok()).unwrap_or(500usize) {
            lines.push("...".into());
            break;
        }
    }
    let exn = ["SignalOnly", "WithRawSiginfo", "WithOrigin"][case.exf as usize % 3];
    let con = ["wait-loop", "forever", "pending-polling", "poll_signal", "forever-one-item-at-a-time"][case.consumer as usize % 5];
    json!({
        "exfiltrator": exn,
        "consumer": con,
        "init": case.init, "others": case.others, "nested": case.nested,
        "outcome": format!("{:?}", res.outcome), "steps": res.steps, "switches": res.switches,
        "trace": lines,
    })
}

pub fn run_case(case: &IterCase) -> CaseReport {
    let case2 = case.clone();
    let end = fork_case(20_000, move || {
        let (_res, rep) = execute(&case2);
        serde_json::to_value(&rep).unwrap()
    });
    let mut rep = match end {
        ChildEnd::Report(v) => match serde_json::from_value::<CaseReport>(v) {
            Ok(r) => r,
            Err(e) => CaseReport { inconclusive: Some(format!("bad child report: {}", e)), ..Default::default() },
        },
        ChildEnd::Signaled { sig, .. } => {
            let mut r = CaseReport::default();
            r.viol(&format!("crash/sig={}", sig), format!("the child running the case was killed by signal {}", sig));
            r.nontrivial = true;
            r.aborted = true;
            r.hash = hash_of(&format!("{:?}", case));
            r.sample = Some(json!({"case": case, "child": format!("killed by signal {}", sig)}));
            r
        }
        ChildEnd::Exited { code, partial } => CaseReport {
            inconclusive: Some(format!("child exited {} without a report: {}", code, &partial[..partial.len().min(200)])),
            ..Default::default()
        },
        ChildEnd::Timeout { .. } => CaseReport { inconclusive: Some("child timed out (watchdog)".into()), ..Default::default() },
        ChildEnd::Infra(e) => CaseReport { inconclusive: Some(e), ..Default::default() },
    };
    if rep.violations.is_empty() {
        if let Some(s) = rep.sample.as_mut() {
            if let Some(t) = s.get_mut("trace").and_then(|t| t.as_array_mut()) {
                if std::env::var_os("VERIF_TRACE_MAX").is_none() { t.truncate(80); }
            }
        }
    }
    rep
}

/// Scenarios under the executor, plus the real tokio / async-std adapters under their own runtimes.
#[derive(Clone, Debug, Serialize, Deserialize)]
pub enum IterAny {
    Sched(IterCase),
    Adapter(crate::adapters::AdapterCase),
}

pub fn run_any(c: &IterAny) -> CaseReport {
    match c {
        IterAny::Sched(c) => run_case(c),
        IterAny::Adapter(c) => crate::adapters::run_case(c),
    }
}

fn replay(v: &Value) -> CaseReport {
    if v.get("close_with_full_pipe").is_some() {
        return crate::adapters::close_with_full_pipe_probe();
    }
    if let Some(b) = v.get("own_thread_burst") {
        return own_thread_burst_probe(b["exf"].as_u64().unwrap_or(0) as u8, b["n"].as_u64().unwrap_or(400) as u32);
    }
    if let Ok(c) = serde_json::from_value::<IterAny>(v.clone()) {
        return run_any(&c);
    }
    let case: IterCase = serde_json::from_value(v.clone()).expect("case");
    run_case(&case)
}

/// C09 only: scenarios in which one thread adds a signal nobody watches yet - half of the time
/// the highest-numbered one - while another thread is already delivering it and the consumer
/// keeps scanning (the general generator produces this shape in one case of eight; seed C09-3
/// was caught on three seeds of four before this focus existed)
fn add_race_focus() -> BoxedStrategy<IterCase> {
    strategy(false)
        .prop_map(|mut c| {
            let sig = if c.polls % 2 == 0 { 2 } else { c.polls % 3 };
            c.init.retain(|s| *s % 3 != sig);
            if c.init.is_empty() {
                c.init.push((sig + 1) % 3);
            }
            while c.others.len() < 2 {
                c.others.push(vec![]);
            }
            if !matches!(c.others[0].first(), Some(IOp::AddSignal { sig: s }) if *s == sig) {
                c.others[0].insert(0, IOp::AddSignal { sig });
            }
            c.others[1].insert(0, IOp::Deliver { sig });
            c.others[1].insert(1, IOp::Deliver { sig });
            c.failed_ctor = 0;
            c
        })
        .boxed()
}

fn w09(def: &PropDef, args: &WorkerArgs) -> WorkerReport {
    let s = prop_oneof![12 => strategy(false).prop_map(IterAny::Sched), 1 => crate::adapters::strategy().prop_map(IterAny::Adapter), 3 => add_race_focus().prop_map(IterAny::Sched)].boxed();
    generic_worker(def, args, s, &run_any)
}
fn w10(def: &PropDef, args: &WorkerArgs) -> WorkerReport {
    let s = prop_oneof![9 => strategy(false).prop_map(IterAny::Sched), 3 => strategy(true).prop_map(IterAny::Sched), 1 => crate::adapters::strategy().prop_map(IterAny::Adapter)].boxed();
    generic_worker(def, args, s, &run_any)
}
fn w11(def: &PropDef, args: &WorkerArgs) -> WorkerReport {
    let s = prop_oneof![12 => strategy(true).prop_map(IterAny::Sched), 1 => crate::adapters::strategy().prop_map(IterAny::Adapter)].boxed();
    generic_worker(def, args, s, &run_any)
}

const ASSUME: &[&str] = &[
    "deliveries are simulated: the real dispatcher is called at instrumented points; the self-pipe is a real socket pair and wake-ups are real sends",
    "a consumer about to block on the self-pipe is disabled by the executor while the descriptor is not readable (poll(2) with zero timeout); quiescence = no thread can run",
    "the async adapters are represented by a harness poller with their documented behaviour: non-blocking 1-byte read, 'would block' arms the waker, the task is parked until the descriptor is readable",
];

/// Real signals, no executor: `n` deliveries of a watched signal arrive on the consumer's own
/// thread while it is not draining (a single-threaded program busy elsewhere), then it consumes.
/// It must obtain the signal - which presupposes that every one of those deliveries returns to
/// it: the consumer thread is the only reader of the self-pipe.
fn own_thread_burst_child<E>(n: u32, fd: i32)
where
    E: Exfiltrator + Default,
    E::Output: Rec,
{
    crate::vsched::install();
    crate::forkrun::ignore_sigpipe();
    let mut sigs = match SignalsInfo::<E>::new(&[libc::SIGUSR1, libc::SIGUSR2]) {
        Ok(s) => s,
        Err(_) => return,
    };
    crate::forkrun::emit(fd, &json!({"k": "burst-start", "n": n}));
    for _ in 0..n {
        unsafe { libc::raise(libc::SIGUSR1) };
    }
    crate::forkrun::emit(fd, &json!({"k": "burst-done"}));
    let got: Vec<c_int> = sigs.pending().map(|r| r.sig()).collect();
    crate::forkrun::emit(fd, &json!({"k": "pending", "got": got}));
    // and the blocking interface afterwards: a further delivery of the other signal
    unsafe { libc::raise(libc::SIGUSR2) };
    let got2: Vec<c_int> = sigs.wait().map(|r| r.sig()).collect();
    crate::forkrun::emit(fd, &json!({"k": "wait", "got": got2}));
    crate::forkrun::emit(fd, &json!({"k": "done"}));
}

pub fn own_thread_burst_probe(exf: u8, n: u32) -> CaseReport {
    let (recs, end) = crate::forkrun::fork_stream(5_000, move |fd| match exf % 3 {
        0 => own_thread_burst_child::<SignalOnly>(n, fd),
        1 => own_thread_burst_child::<WithRawSiginfo>(n, fd),
        _ => own_thread_burst_child::<WithOrigin>(n, fd),
    });
    let mut rep = CaseReport::default();
    rep.hash = hash_of(&("own-thread-burst", exf, n));
    rep.class("burst-on-the-consumer's-own-thread");
    rep.nontrivial = n >= 300;
    rep.sample = Some(json!({"own_thread_burst": {"exf": exf, "n": n}, "records": recs, "end": format!("{:?}", end)}));
    match &end {
        crate::forkrun::End::Timeout => {
            let started = recs.iter().any(|r| r["k"] == "burst-start");
            let finished = recs.iter().any(|r| r["k"] == "burst-done");
            let sys = crate::forkrun::last_timeout_syscall();
            let nr = sys.split_whitespace().next().unwrap_or("").to_string();
            if started && !finished && (nr == libc::SYS_write.to_string() || nr == libc::SYS_sendto.to_string()) {
                rep.viol("C09/consumer-stuck-in-delivery", format!("{} deliveries of a watched signal arrived on the consumer's own thread while it was not draining: one of them never returned (the thread sits in a blocking write, syscall state `{}`), so the consumer can never obtain the signal - it is the only reader of that pipe", n, sys.trim()));
            } else {
                rep.inconclusive = Some(format!("own-thread burst probe timed out ({})", sys.trim()));
            }
        }
        crate::forkrun::End::Infra(e) => rep.inconclusive = Some(e.clone()),
        crate::forkrun::End::Signaled(s) => rep.viol("C09/consumer-panic", format!("own-thread burst of {}: the process was killed by signal {}", n, s)),
        crate::forkrun::End::Exited(_) => {
            if !recs.iter().any(|r| r["k"] == "done") {
                rep.viol("C09/consumer-panic", format!("own-thread burst of {}: the consumer did not finish (records {:?})", n, recs.last()));
                return rep;
            }
            let has = |k: &str, s: c_int| recs.iter().find(|r| r["k"] == k).and_then(|r| r["got"].as_array()).map_or(false, |a| a.iter().any(|x| x.as_i64() == Some(s as i64)));
            if !has("pending", libc::SIGUSR1) {
                rep.viol("C09/unreported@quiescence", format!("{} deliveries of SIGUSR1 arrived before the consumer looked; pending() did not report the signal", n));
            }
            if !has("wait", libc::SIGUSR2) {
                rep.viol("C09/unreported@quiescence", format!("after a burst of {} a delivery of SIGUSR2 was not reported by wait()", n));
            }
        }
    }
    rep
}

fn c09_extra(def: &PropDef, _args: &WorkerArgs, report: &mut WorkerReport) {
    let known = Known::load();
    for exf in 0..3u8 {
        for n in [1u32, 6, 400, 3000] {
            let rep = own_thread_burst_probe(exf, n);
            if let Some(v) = report.absorb(def, &rep, &known) {
                report.violation = Some((v.key, v.msg, json!({"own_thread_burst": {"exf": exf, "n": n}})));
                return;
            }
        }
    }
}

pub static C09: PropDef = PropDef {
    id: "C09",
    prefixes: &["C09/"],
    rule: "proptest-generated scenarios: exfiltrator (3) x consumer mode {wait loop, forever, pending polling, poll_signal with readiness callback, a fresh forever() per item} x 1-3 other threads with <=6 ops over {deliver (3 signals), add_signal, is_closed} x nested deliveries into any thread x byte schedule; a quiescence observer thread runs only when no other thread can, then closes the instance. Oracle: every finished delivery of a watched signal has a yield of that signal whose load step lies after the delivery's store, before quiescence; anything that only comes out after the observer's close was delivered, unreported and un-woken. Worker 0 adds a real-signal probe per exfiltrator: 1 / 6 / 400 / 3000 deliveries arrive on the consumer's own thread while it is not draining, then pending() and wait() must report (every such delivery has to return to the only reader of the pipe). Non-trivial = a store landed inside a consumer call or the consumer blocked; distinct = hash of realised call/return/delivery/yield interleaving",
    assumptions: ASSUME,
    cases: (1200, 30_000),
    shrink_iters: 600,
    worker: w09,
    replay,
    extra: Some(c09_extra),
};

pub static C10: PropDef = PropDef {
    id: "C10",
    prefixes: &["C10/"],
    rule: "same scenarios (with and without application close); oracle at every yield: count of yields of a signal <= deliveries of it begun since it was added, yielded number is watched, info-carrying records match exactly one begun delivery (unique sender id carried in si_pid), at most one record per delivery, records of one signal in delivery order; also for the post-close drain. Non-trivial = >=2 deliveries of one signal between two scans (collation), overflow, or a store inside a consumer call; distinct = hash of realised interleaving",
    assumptions: ASSUME,
    cases: (1200, 30_000),
    shrink_iters: 600,
    worker: w10,
    replay,
    extra: None,
};

fn c11_extra(def: &PropDef, _args: &WorkerArgs, report: &mut WorkerReport) {
    let known = Known::load();
    let rep = crate::adapters::close_with_full_pipe_probe();
    if rep.inconclusive.is_some() {
        return;
    }
    if let Some(v) = report.absorb(def, &rep, &known) {
        report.violation = Some((v.key, v.msg, json!({"close_with_full_pipe": true})));
    }
}

pub static C11: PropDef = PropDef {
    id: "C11",
    prefixes: &["C11/"],
    rule: "same scenarios plus close()/is_closed() from other threads at generated instants; oracle: is_closed true after any close returned; after close nobody stays blocked (no deadlock, calls started after close do not block and are bounded, forever ends); every poll_signal returning Pending had its readiness callback consulted in that call with last answer 'nothing available'. Non-trivial = a close() fell inside a consumer call; distinct = hash of realised interleaving",
    assumptions: ASSUME,
    cases: (1200, 30_000),
    shrink_iters: 600,
    worker: w11,
    replay,
    extra: Some(c11_extra),
};
