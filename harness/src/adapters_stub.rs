//! Stand-in for adapters.rs when the `adapters` feature is off (fuzz builds): same public items,
//! cases are never generated there and report "inconclusive" if replayed.
use crate::driver::*;
use proptest::prelude::*;
use serde::{Deserialize, Serialize};

#[derive(Clone, Debug, Serialize, Deserialize)]
pub struct AdapterCase {
    pub runtime: u8,
    pub init: Vec<u8>,
}

pub fn strategy() -> BoxedStrategy<AdapterCase> {
    Just(AdapterCase { runtime: 0, init: vec![] }).boxed()
}

pub fn run_case(_case: &AdapterCase) -> CaseReport {
    CaseReport { inconclusive: Some("built without the real-adapter family".into()), ..Default::default() }
}

pub fn close_with_full_pipe_probe() -> CaseReport {
    CaseReport { inconclusive: Some("built without the real-adapter family".into()), ..Default::default() }
}
