//! C06 / C07 / C08 — the signal-safe channel under generated schedules (in-process vsched).

use crate::driver::*;
use crate::vsched::{self, Config, Exec, Item, Nested, Outcome, Rec, RunResult, Vc, MAX_THREADS};
use proptest::collection::vec;
use proptest::prelude::*;
use serde::{Deserialize, Serialize};
use serde_json::{json, Value};
use signal_hook::low_level::channel::Channel;
use signal_hook_registry::verif_shim::Kind;
use std::collections::{BTreeMap, HashMap};
use std::sync::atomic::{AtomicU32, Ordering};
use std::sync::Arc;

#[derive(Clone, Debug, Serialize, Deserialize, PartialEq, Eq, Hash)]
pub enum ChanOp {
    Send,
    Recv,
    SoloSend,
    SoloRecv,
    Signal(u32),
    Wait(u32),
}

#[derive(Clone, Debug, Serialize, Deserialize)]
pub struct NestedOp {
    pub thread: usize,
    pub at: u32,
    pub recv: bool,
    pub solo: bool,
}

#[derive(Clone, Debug, Serialize, Deserialize)]
pub struct ChanCase {
    pub prefix: Vec<bool>, // true = send, false = recv (sequential, before the threads start)
    pub threads: Vec<Vec<ChanOp>>,
    pub nested: Vec<NestedOp>,
    pub schedule: Vec<u8>,
    pub weak: bool,
    /// how many values the final drain takes out before the channel is dropped (>= 7: all of
    /// them); what is left inside must be released by the channel's own drop, exactly once each
    #[serde(default = "full_drain")]
    pub drain: u8,
}

fn full_drain() -> u8 {
    255
}

const LEDGER_N: usize = 512;
static LEDGER: [AtomicU32; LEDGER_N] = [const { AtomicU32::new(0) }; LEDGER_N];

pub struct Payload {
    id: u32,
}

impl Drop for Payload {
    fn drop(&mut self) {
        LEDGER[self.id as usize % LEDGER_N].fetch_add(1, Ordering::SeqCst);
        vsched::mark("drop", self.id as i64, 0);
    }
}

fn op_strategy() -> impl Strategy<Value = ChanOp> {
    prop_oneof![
        8 => Just(ChanOp::Send),
        6 => Just(ChanOp::Recv),
        1 => Just(ChanOp::SoloSend),
        1 => Just(ChanOp::SoloRecv),
    ]
}

pub fn strategy() -> BoxedStrategy<ChanCase> {
    (
        vec(prop_oneof![3 => Just(true), 1 => Just(false)], 0..9),
        vec(vec(op_strategy(), 1..7), 1..5),
        vec((0usize..4, 1u32..30, prop_oneof![4 => Just(false), 1 => Just(true)], any::<bool>()), 0..4),
        schedule_strategy(160),
        prop_oneof![3 => Just(true), 1 => Just(false)],
        // optional sync pair: (from thread, after op k, to thread, before op m)
        prop::option::weighted(0.3, (0usize..4, 0usize..6, 0usize..4, 0usize..6)),
        prop_oneof![1 => Just(255u8), 1 => 0u8..5],
    )
        .prop_map(|(prefix, mut threads, nested, schedule, weak, sync, drain)| {
            let n = threads.len();
            if let Some((a, k, b, m)) = sync {
                let (a, b) = (a % n, b % n);
                if a < b {
                    let k = k.min(threads[a].len());
                    threads[a].insert(k, ChanOp::Signal(1));
                    let m = m.min(threads[b].len());
                    threads[b].insert(m, ChanOp::Wait(1));
                }
            }
            let nested = nested
                .into_iter()
                .map(|(t, at, recv, solo)| NestedOp { thread: t % n, at, recv, solo })
                .collect();
            ChanCase { prefix, threads, nested, schedule, weak, drain }
        })
        .boxed()
}

fn val_id(thread: usize, idx: usize) -> u32 {
    (thread as u32 + 1) * 32 + idx as u32
}

fn do_send(ch: &Channel<Payload>, id: u32) {
    let c = vsched::call("send", id as i64, 0);
    // send is meant for signal handlers: like a delivery, it must not touch the heap (an
    // allocator lock is a wait for whoever holds it - possibly the very thread it interrupted)
    let ((), heap) = crate::alloc::in_delivery(|| ch.send(Payload { id }));
    if heap > 0 && !std::thread::panicking() {
        vsched::violate("C08/alloc", format!("send({}) performed {} heap operations", id, heap));
    }
    vsched::ret(c, 0);
}

fn do_recv(ch: &Channel<Payload>) -> Option<u32> {
    let c = vsched::call("recv", 0, 0);
    let (r, heap) = crate::alloc::in_delivery(|| ch.recv());
    if heap > 0 {
        vsched::violate("C08/alloc", format!("recv performed {} heap operations", heap));
    }
    let id = r.as_ref().map(|p| p.id);
    vsched::ret(c, id.map_or(-1, |x| x as i64));
    drop(r);
    id
}

pub struct ChanRun {
    pub res: RunResult,
    pub ledger: Vec<(u32, u32)>,
    pub sent_ids: Vec<u32>,
}

pub fn execute(case: &ChanCase) -> ChanRun {
    for l in LEDGER.iter() {
        l.store(0, Ordering::SeqCst);
    }
    let n = case.threads.len();
    let nested_cfg: Vec<Nested> = case
        .nested
        .iter()
        .enumerate()
        .map(|(i, x)| Nested { thread: x.thread, at: x.at, id: i as u32, on: 0 })
        .collect();
    let cfg = Config {
        schedule: case.schedule.clone(),
        step_bound: 20_000,
        nested: nested_cfg,
        weak: case.weak,
        log_ops: true,
        abort_unwind: true,
        script: vec![],
        abort_on_cell_race: false,
        stretch: 1,
        hold: None,
    };
    let exec = Exec::new(cfg, n);
    let ch: Arc<Channel<Payload>> = Arc::new(Channel::new());
    let mut sent_ids = Vec::new();
    // sequential prefix on the driver thread (pass-through hooks, logged as tid -1)
    for (i, s) in case.prefix.iter().enumerate() {
        let ch2 = ch.clone();
        let id = 400 + i as u32;
        if *s {
            sent_ids.push(id);
        }
        let send = *s;
        let r = std::panic::catch_unwind(std::panic::AssertUnwindSafe(move || {
            if send {
                do_send(&ch2, id);
            } else {
                do_recv(&ch2);
            }
        }));
        if r.is_err() {
            vsched::driver_panic(vsched::take_last_panic().unwrap_or_default());
        }
    }
    // nested ops
    {
        let ch = ch.clone();
        let nested = case.nested.clone();
        exec.set_nested_fn(Arc::new(move |k: u32| {
            let x = &nested[k as usize];
            let id = 300 + k;
            let f = || {
                vsched::in_handler(|| {
                    if x.recv {
                        do_recv(&ch);
                    } else {
                        do_send(&ch, id);
                    }
                })
            };
            if x.solo {
                vsched::solo(f)
            } else {
                f()
            }
        }));
    }
    for (k, x) in case.nested.iter().enumerate() {
        if !x.recv {
            sent_ids.push(300 + k as u32);
        }
    }
    let mut bodies: Vec<Box<dyn FnOnce() + Send>> = Vec::new();
    for (t, ops) in case.threads.iter().enumerate() {
        let ch = ch.clone();
        let ops = ops.clone();
        for (i, op) in ops.iter().enumerate() {
            if matches!(op, ChanOp::Send | ChanOp::SoloSend) {
                sent_ids.push(val_id(t, i));
            }
        }
        bodies.push(Box::new(move || {
            for (i, op) in ops.iter().enumerate() {
                match op {
                    ChanOp::Send => do_send(&ch, val_id(t, i)),
                    ChanOp::Recv => {
                        do_recv(&ch);
                    }
                    ChanOp::SoloSend => vsched::solo(|| do_send(&ch, val_id(t, i))),
                    ChanOp::SoloRecv => {
                        vsched::solo(|| do_recv(&ch));
                    }
                    ChanOp::Signal(x) => vsched::sync_signal(*x),
                    ChanOp::Wait(x) => vsched::sync_wait(*x),
                }
            }
        }));
    }
    exec.run(bodies);
    let completed = {
        // drain only if the run completed (otherwise threads are parked inside operations)
        let r = exec_outcome(&exec);
        r
    };
    if completed {
        let c = vsched::call("drain", 0, 0);
        let ch2 = ch.clone();
        let limit = if case.drain >= 7 { u32::MAX } else { case.drain as u32 };
        let r = std::panic::catch_unwind(std::panic::AssertUnwindSafe(move || {
            let mut guard = 0;
            while guard < limit && do_recv(&ch2).is_some() {
                guard += 1;
                if guard > 20 {
                    vsched::violate("C06/drain-endless", "drain returned more than 20 values".into());
                    break;
                }
            }
        }));
        if r.is_err() {
            vsched::driver_panic(vsched::take_last_panic().unwrap_or_default());
        }
        vsched::ret(c, 0);
        // the nested-operation closure holds the only other reference
        exec.set_nested_fn(Arc::new(|_| {}));
        vsched::mark("channel-drop-start", 0, 0);
        match Arc::try_unwrap(ch) {
            Ok(c) => {
                let r = std::panic::catch_unwind(std::panic::AssertUnwindSafe(move || drop(c)));
                if r.is_err() {
                    vsched::driver_panic(vsched::take_last_panic().unwrap_or_default());
                }
            }
            Err(_) => vsched::driver_panic("harness: the channel is still shared at the end of the run".into()),
        }
        vsched::mark("channel-dropped", 0, 0);
    }
    let res = exec.finish();
    let ledger = sent_ids
        .iter()
        .map(|id| (*id, LEDGER[*id as usize % LEDGER_N].load(Ordering::SeqCst)))
        .collect();
    ChanRun { res, ledger, sent_ids }
}

fn exec_outcome(exec: &Arc<Exec>) -> bool {
    exec.completed()
}

#[derive(Clone, Debug)]
struct OpRec {
    tid: i32,
    is_send: bool,
    val: i64, // sent value or received value (-1 none)
    call_idx: usize,
    ret_idx: Option<usize>,
    call_vc: Vc,
    ret_vc: Vc,
    call_step: u64,
    post: bool, // drain
    depth: u32,
}

/// a.ret happens-before b.call
fn hb(a: &OpRec, b: &OpRec) -> bool {
    let ar = match a.ret_idx {
        Some(x) => x,
        None => return false,
    };
    if a.tid < 0 && !a.post {
        // sequential prefix: before every thread op, and ordered among themselves by log order
        return if b.tid < 0 && !b.post { ar < b.call_idx } else { true };
    }
    if b.post {
        return if a.post { ar < b.call_idx } else { true };
    }
    if a.post || b.tid < 0 {
        return false;
    }
    if a.tid == b.tid {
        return ar < b.call_idx;
    }
    let ta = a.tid as usize;
    a.ret_vc[ta] > 0 && a.ret_vc[ta] <= b.call_vc[ta]
}

pub fn analyse(case: &ChanCase, run: &ChanRun) -> CaseReport {
    let mut rep = CaseReport::default();
    let log = &run.res.log;
    for v in &run.res.violations {
        rep.violations.push(Viol { key: v.key.clone(), msg: v.msg.clone() });
    }
    // collect operations
    let mut ops: Vec<OpRec> = Vec::new();
    let mut open: HashMap<u32, usize> = HashMap::new();
    let mut post = false;
    let mut drops: Vec<(usize, i32, i64)> = Vec::new(); // (log idx, tid, id)
    let mut panics: Vec<(i32, String)> = Vec::new();
    let mut chan_drop_start: Option<usize> = None;
    let mut chan_dropped = false;
    let mut left_inside: Vec<(usize, u64, i64, Vc)> = Vec::new();
    for (i, r) in log.iter().enumerate() {
        match &r.item {
            Item::Call { id, name, a, .. } => {
                if *name == "drain" {
                    post = true;
                    continue;
                }
                let is_send = *name == "send";
                open.insert(*id, ops.len());
                ops.push(OpRec {
                    tid: r.tid,
                    is_send,
                    val: if is_send { *a } else { -1 },
                    call_idx: i,
                    ret_idx: None,
                    call_vc: r.vc,
                    ret_vc: r.vc,
                    call_step: r.step,
                    post,
                    depth: r.depth,
                });
            }
            Item::Ret { id, r: rv } => {
                if let Some(k) = open.remove(id) {
                    ops[k].ret_idx = Some(i);
                    ops[k].ret_vc = r.vc;
                    if !ops[k].is_send {
                        ops[k].val = *rv;
                    }
                }
            }
            Item::Mark { name, a, .. } if *name == "drop" => {
                drops.push((i, r.tid, *a));
                if let Some(start) = chan_drop_start {
                    if !chan_dropped {
                        // released by the channel's own drop: it stayed inside to the very end
                        left_inside.push((start, r.step, *a, r.vc));
                    }
                }
            }
            Item::Mark { name, .. } if *name == "channel-drop-start" => chan_drop_start = Some(i),
            Item::Mark { name, .. } if *name == "channel-dropped" => chan_dropped = true,
            Item::Panic { msg } => panics.push((r.tid, msg.clone())),
            _ => {}
        }
    }
    // A value the channel itself released when it was dropped counts as obtained at that instant
    // (all of them at the same instant: the order in which a dropped channel releases its
    // contents is nobody's business).
    if !left_inside.is_empty() {
        rep.class("dropped-non-empty");
    }
    let mut seen_left: std::collections::BTreeSet<i64> = ops.iter().filter(|o| !o.is_send && o.val >= 0).map(|o| o.val).collect();
    for (start, step, id, vc) in &left_inside {
        if !seen_left.insert(*id) {
            continue; // a second release of one value is the drop ledger's (C07) business
        }
        ops.push(OpRec { tid: -1, is_send: false, val: *id, call_idx: *start, ret_idx: Some(*start), call_vc: *vc, ret_vc: *vc, call_step: *step, post: true, depth: 0 });
    }
    // ---- C08: panics, solo bounds
    for (t, m) in &panics {
        let short = if m.contains("No empty slot") {
            "no-empty-slot"
        } else if m.contains("Full slot with nothing") {
            "full-slot-empty"
        } else {
            "other"
        };
        rep.violations.push(Viol { key: format!("C08/panic={}", short), msg: format!("thread {} panicked: {}", t, m) });
    }
    // solo windows
    let mut solo_started = false;
    {
        let mut i = 0;
        while i < log.len() {
            if let Item::SoloStart = log[i].item {
                solo_started = true;
                let t = log[i].tid;
                let mut steps = 0u32;
                let mut calls = 0u32;
                let mut spur = 0u32;
                let mut waits = 0u32;
                let mut closed = false;
                let mut j = i + 1;
                let mut inflight_other = false;
                // was another op in flight when the solo op started?
                for o in &ops {
                    if o.call_idx < i && o.ret_idx.map_or(true, |r| r > i) && !o.post {
                        inflight_other = true;
                    }
                }
                while j < log.len() {
                    if log[j].tid == t {
                        match &log[j].item {
                            Item::Call { .. } => calls += 1,
                            Item::Op { spurious, stale, .. } => {
                                steps += 1;
                                if *spurious || *stale > 0 {
                                    // each injected spurious failure / stale initial load
                                    // legitimately costs one more CAS attempt
                                    spur += 1;
                                }
                            }
                            Item::Point { kind, .. } if matches!(kind, Kind::Yield | Kind::Spin) => waits += 1,
                            Item::Lock { .. } | Item::Blocked { .. } => waits += 1,
                            Item::SoloEnd { blocked, .. } => {
                                if *blocked {
                                    rep.violations.push(Viol {
                                        key: "C08/wait-op".into(),
                                        msg: format!("isolated channel op of thread {} could not proceed alone", t),
                                    });
                                }
                                closed = true;
                                break;
                            }
                            _ => {}
                        }
                    }
                    j += 1;
                }
                if inflight_other {
                    rep.class("solo-with-inflight");
                }
                if closed {
                    if steps > 4 * calls + spur + 2 * calls.saturating_sub(1) {
                        rep.violations.push(Viol {
                            key: "C08/steps".into(),
                            msg: format!("isolated op of thread {} took {} atomic steps ({} spurious failures injected)", t, steps, spur),
                        });
                    }
                    if waits > 0 {
                        rep.violations.push(Viol {
                            key: "C08/wait-op".into(),
                            msg: format!("isolated op of thread {} executed {} wait operations", t, waits),
                        });
                    }
                } else if run.res.outcome == Outcome::StepBound {
                    rep.violations.push(Viol {
                        key: "C08/steps".into(),
                        msg: format!("isolated op of thread {} did not finish within the step bound", t),
                    });
                }
            }
            i += 1;
        }
    }
    match &run.res.outcome {
        Outcome::Completed => {}
        Outcome::StepBound => {
            if !rep.violations.iter().any(|v| v.key.starts_with("C08/steps")) {
                rep.violations.push(Viol { key: "C08/steps".into(), msg: "run exceeded the step bound (channel ops loop)".into() });
            }
        }
        Outcome::Deadlock(b) => {
            rep.violations.push(Viol { key: "C08/wait-op".into(), msg: format!("deadlock: {:?}", b) });
        }
        Outcome::Aborted => {}
    }
    // ---- classes / non-triviality
    let mut overlap = false;
    for (i, a) in ops.iter().enumerate() {
        for b in ops.iter().skip(i + 1) {
            if a.tid != b.tid && !a.post && !b.post && a.tid >= 0 && b.tid >= 0 {
                let (ar, br) = (a.ret_idx.unwrap_or(usize::MAX), b.ret_idx.unwrap_or(usize::MAX));
                if a.call_idx < br && b.call_idx < ar {
                    overlap = true;
                }
            }
        }
    }
    let nested_ran = run.res.nested_run > 0;
    if overlap {
        rep.class("overlap");
    }
    if nested_ran {
        rep.class("nested");
    }
    if run.res.stale_reads > 0 {
        rep.class("stale-read");
    }
    if run.res.spurious > 0 {
        rep.class("spurious-cas");
    }
    if solo_started {
        rep.class("solo");
    }
    rep.nontrivial = overlap || nested_ran;
    rep.count("steps", run.res.steps);
    rep.count("switches", run.res.switches);
    rep.count("stale_reads", run.res.stale_reads);
    rep.count("spurious_cas", run.res.spurious);
    rep.count("nested", run.res.nested_run as u64);
    // realised interleaving hash: sequence of (tid, kind) of call/ret records
    let shape: Vec<(i32, bool, bool, i64)> = log
        .iter()
        .filter_map(|r| match &r.item {
            Item::Call { name, .. } => Some((r.tid, true, *name == "send", 0)),
            Item::Ret { r: rv, .. } => Some((r.tid, false, false, (*rv).min(0))),
            _ => None,
        })
        .collect();
    rep.hash = hash_of(&shape);

    let completed = run.res.outcome == Outcome::Completed;
    rep.aborted = run.res.outcome != Outcome::Completed;
    if completed {
        // ---- C06
        let sends: Vec<&OpRec> = ops.iter().filter(|o| o.is_send).collect();
        let recvs: Vec<&OpRec> = ops.iter().filter(|o| !o.is_send).collect();
        let sent: BTreeMap<i64, &OpRec> = sends.iter().map(|s| (s.val, *s)).collect();
        let mut obtained: BTreeMap<i64, &OpRec> = BTreeMap::new();
        for r in &recvs {
            if r.val >= 0 {
                if !sent.contains_key(&r.val) {
                    rep.violations.push(Viol { key: "C06/invented".into(), msg: format!("received value {} that was never sent", r.val) });
                } else if obtained.contains_key(&r.val) {
                    rep.violations.push(Viol { key: "C06/duplicate".into(), msg: format!("value {} received twice", r.val) });
                } else {
                    obtained.insert(r.val, *r);
                }
            }
        }
        // (b) order
        let obt: Vec<(i64, &OpRec)> = obtained.iter().map(|(k, v)| (*k, *v)).collect();
        'outer: for (va, ra) in &obt {
            for (vb, rb) in &obt {
                if va != vb && hb(sent[va], sent[vb]) && hb(rb, ra) {
                    rep.violations.push(Viol {
                        key: "C06/order".into(),
                        msg: format!("send({}) ordered before send({}) but recv({}) ordered before recv({})", va, vb, vb, va),
                    });
                    break 'outer;
                }
            }
        }
        // (c) discard
        let mut discards = 0;
        for s in &sends {
            if !obtained.contains_key(&s.val) {
                discards += 1;
                let mut outstanding = 0;
                for (w, rw) in &obt {
                    if *w == s.val {
                        continue;
                    }
                    if hb(s, sent[w]) {
                        continue;
                    }
                    if hb(rw, s) {
                        continue;
                    }
                    outstanding += 1;
                }
                // dropped inside its own send? then it was discarded by send (allowed when full);
                // otherwise the channel had accepted it and lost it afterwards
                let inside = drops.iter().any(|(i, t, id)| {
                    *id == s.val && *t == s.tid && *i > s.call_idx && s.ret_idx.map_or(true, |r| *i < r)
                });
                if inside {
                    if outstanding < 5 {
                        rep.violations.push(Viol {
                            key: "C06/discard<5".into(),
                            msg: format!("value {} was discarded although only {} other values could be outstanding", s.val, outstanding),
                        });
                    }
                } else {
                    rep.violations.push(Viol {
                        key: "C06/lost".into(),
                        msg: format!("value {} was accepted by send (not dropped inside it) but no receive ever obtained it", s.val),
                    });
                    rep.violations.push(Viol {
                        key: "C07/drop-count".into(),
                        msg: format!("value {} was neither received nor dropped inside its send", s.val),
                    });
                }
            }
        }
        if discards > 0 {
            rep.class("discard");
        }
        // (d) empty
        for r in &recvs {
            if r.val < 0 {
                if r.post {
                    continue; // the final None of the drain is checked by (e)
                }
                for (v, rv) in &obt {
                    let s = sent[v];
                    if hb(s, r) && (rv.post || hb(r, rv)) {
                        rep.violations.push(Viol {
                            key: "C06/empty".into(),
                            msg: format!("recv reported empty although value {} was sent before it and taken only afterwards", v),
                        });
                        break;
                    }
                }
            }
        }
        // (e) after the drain nothing is left: every sent value is obtained or discarded, and
        // the drain ended with None (guard above).
        // ---- C07 ledger
        for (id, n) in &run.ledger {
            if *n != 1 && sent.contains_key(&(*id as i64)) {
                rep.violations.push(Viol {
                    key: "C07/drop-count".into(),
                    msg: format!("value {} dropped {} times", id, n),
                });
                if *n > 1 {
                    // two owners destroyed it: it came out of the channel more than once
                    rep.violations.push(Viol { key: "C06/duplicate".into(), msg: format!("value {} was destroyed {} times: the channel handed out (or kept) more than one copy of it", id, n) });
                }
                break;
            }
        }
        // cells reused across threads → C07 non-trivial marker
        let mut last_user: HashMap<usize, i32> = HashMap::new();
        let mut cross = false;
        for r in log.iter() {
            if let Item::Event { ev, a, .. } = &r.item {
                use signal_hook_registry::verif_shim::Event as E;
                if matches!(ev, E::CellWrite | E::CellTake) {
                    if let Some(p) = last_user.insert(*a, r.tid) {
                        if p != r.tid && p >= 0 && r.tid >= 0 {
                            cross = true;
                        }
                    }
                }
            }
        }
        if cross {
            rep.class("cell-cross-thread");
        }
    }
    if rep.violations.iter().any(|v| v.key == "C07/race") {
        // a take that is not ordered after the write of the value it takes: under the declared
        // orderings what it obtains is indeterminate, so "every value obtained was sent, exactly
        // once" cannot hold in that (allowed) execution
        rep.violations.push(Viol { key: "C06/racy-value".into(), msg: "a payload cell was accessed without happens-before ordering to its previous access: the value obtained by that receive is indeterminate under the declared orderings".into() });
    }
    rep.violations.dedup_by(|a, b| a.key == b.key);
    rep.sample = Some(render(case, run, &ops));
    rep
}

fn render(case: &ChanCase, run: &ChanRun, _ops: &[OpRec]) -> Value {
    let mut lines: Vec<String> = Vec::new();
    let mut names: HashMap<usize, usize> = HashMap::new();
    for r in run.res.log.iter() {
        let s = match &r.item {
            Item::Call { name, a, .. } => format!("call {}({})", name, a),
            Item::Ret { r: v, .. } => format!("ret -> {}", v),
            Item::Op { kind, addr, old, new, ok, ord, stale, spurious } => {
                let n = names.len();
                let a = *names.entry(*addr).or_insert(n);
                format!("{:?}[{:?}] @{} {:#x}->{:#x} ok={} stale={} spurious={}", kind, ord, a, old, new, ok, stale, spurious)
            }
            Item::Event { ev, a, b } => {
                let n = names.len();
                let a = *names.entry(*a).or_insert(n);
                format!("event {:?} @{} {}", ev, a, b)
            }
            Item::Mark { name, a, .. } => format!("{} {}", name, a),
            other => format!("{:?}", other),
        };
        lines.push(format!("{:>4} t{} d{} {}", r.step, r.tid, r.depth, s));
        if lines.len() > 400 {
            lines.push("...".into());
            break;
        }
    }
    json!({
        "threads": case.threads,
        "prefix": case.prefix,
        "nested": case.nested.len(),
        "outcome": format!("{:?}", run.res.outcome),
        "steps": run.res.steps,
        "switches": run.res.switches,
        "trace": lines,
    })
}

pub fn run_case(case: &ChanCase) -> CaseReport {
    let run = execute(case);
    let mut rep = analyse(case, &run);
    if rep.violations.is_empty() {
        // keep evidence samples small
        if let Some(s) = rep.sample.as_mut() {
            if let Some(t) = s.get_mut("trace").and_then(|t| t.as_array_mut()) {
                t.truncate(60);
            }
        }
    }
    rep
}

/// The bare channel in-process, plus - for C07 and C08 - the channels the info-carrying
/// exfiltrators build for the signals of an iterator instance (lowest, an ordinary and the highest
/// real-time number), reached through real iterator scenarios under the same executor.
#[derive(Clone, Debug, Serialize, Deserialize)]
pub enum ChanAny {
    Chan(ChanCase),
    Iter(crate::iter::IterCase),
    Soak { rounds: u32 },
}

fn run_any(c: &ChanAny) -> CaseReport {
    match c {
        ChanAny::Chan(c) => run_case(c),
        ChanAny::Iter(c) => {
            let mut r = crate::iter::run_case(c);
            r.classes.push("channel-inside-iterator".into());
            r
        }
        ChanAny::Soak { rounds } => {
            // replay of the soak: run it again through a throw-away report
            let mut wr = WorkerReport::default();
            let args = WorkerArgs { tier: if *rounds > 1_000_000 { Tier::Thorough } else { Tier::Quick }, seed: 0, worker: 0, workers: 1, cases: 0 };
            soak(&C08, &args, &mut wr);
            let mut r = CaseReport::default();
            if let Some((k, m, _)) = wr.violation {
                r.viol(&k, m);
            }
            r
        }
    }
}

fn worker(def: &PropDef, args: &WorkerArgs) -> WorkerReport {
    if def.id == "C06" {
        return generic_worker(def, args, strategy().prop_map(ChanAny::Chan).boxed(), &run_any);
    }
    let iter_cases = crate::iter::strategy(false).prop_map(|mut c| {
        c.exf = 1 + c.exf % 2; // WithRawSiginfo / WithOrigin: the exfiltrators built on the channel
        ChanAny::Iter(c)
    });
    let s = prop_oneof![24 => strategy().prop_map(ChanAny::Chan), 1 => iter_cases].boxed();
    generic_worker(def, args, s, &run_any)
}

fn replay(v: &Value) -> CaseReport {
    if let Ok(c) = serde_json::from_value::<ChanAny>(v.clone()) {
        return run_any(&c);
    }
    let case: ChanCase = serde_json::from_value(v.clone()).expect("case");
    run_case(&case)
}

const ASSUME: &[&str] = &[
    "arrival points are the shim operations (every atomic access of channel.rs) and cell-access events",
    "weak-memory exploration is a sound subset of C11: stale plain loads, spurious weak-CAS failures, release sequences; SeqCst accesses read the latest value",
    "happens-before is derived from the orderings written in the source via vector clocks",
];

pub static C06: PropDef = PropDef {
    id: "C06",
    prefixes: &["C06/"],
    rule: "proptest-generated programs of 1-4 threads x <=6 send/recv (+ sequential prefix, nested sends/recvs injected at generated points, optional sync edge) x byte-encoded schedule with stale-read/spurious-CAS choices; oracle: integrity, hb-order, discard>=5 outstanding, empty rule, drain. Non-trivial = two operations of different threads overlapped or a nested operation ran; distinct = hash of realised call/return interleaving",
    assumptions: ASSUME,
    cases: (4000, 100_000),
    shrink_iters: 4000,
    worker,
    replay,
    extra: Some(soak),
};

pub static C07: PropDef = PropDef {
    id: "C07",
    prefixes: &["C07/"],
    rule: "(worker 0 also runs a real-thread stress: a reader draining pending() of a raw / origin instance, a thread repeating add_signal calls the OS rejects, real deliveries, freed blocks poisoned by the harness allocator) same generated runs as C06, plus (1 case in 25) iterator scenarios with the info-carrying exfiltrators, whose per-signal channels (signals 1, 12 and the real-time 64) are judged by the same cell rules; oracle: vector-clock race check on the CellWrite/CellTake events (declared orderings), strict write/take alternation per cell, drop ledger ==1 per sent value, discarded values dropped inside send. Non-trivial = overlapping operations or nested operation; distinct = hash of realised interleaving",
    assumptions: ASSUME,
    cases: (4000, 100_000),
    shrink_iters: 4000,
    worker,
    replay,
    extra: Some(reinit_stress),
};

pub static C08: PropDef = PropDef {
    id: "C08",
    prefixes: &["C08/"],
    rule: "same generated runs as C06 (plus 1 in 25 iterator scenarios over the exfiltrators' channels: a consumer or handler panicking with one of the channel's two messages counts) with isolated (all other threads frozen) sends/recvs on own thread, nested or not; oracle: isolated op <= 4+s atomic steps (s = injected spurious failures), no wait operation, no panic anywhere, no step-bound overrun. Non-trivial = overlapping operations or nested operation; distinct = hash of realised interleaving",
    assumptions: ASSUME,
    cases: (4000, 100_000),
    shrink_iters: 4000,
    worker,
    replay,
    extra: Some(soak),
};

/// Long-run soak (worker 0): one channel instance used for a long time from one thread - counters
/// that wrap, generations that run out and tables that fill up only show after tens of thousands
/// of operations, far beyond what a generated program does. Oracle: a 5-place FIFO model.
fn soak(def: &PropDef, args: &WorkerArgs, report: &mut WorkerReport) {
    let known = Known::load();
    let rounds: u32 = if args.tier == Tier::Thorough { 3_000_000 } else { 150_000 };
    let mut rep = CaseReport::default();
    rep.hash = hash_of(&("soak", rounds));
    rep.class("long-run-soak");
    rep.nontrivial = true;
    let seed = args.seed;
    let r = std::panic::catch_unwind(move || {
        let ch: Channel<u32> = Channel::new();
        let mut model: std::collections::VecDeque<u32> = std::collections::VecDeque::new();
        let mut x = seed.wrapping_mul(6364136223846793005).wrapping_add(1442695040888963407) | 1;
        let mut bad: Option<String> = None;
        for i in 0..rounds {
            x ^= x << 13;
            x ^= x >> 7;
            x ^= x << 17;
            // mostly one-in/one-out, sometimes fill up, overflow and drain
            let burst = if x % 64 == 0 { 7 } else { 1 };
            for k in 0..burst {
                let v = i.wrapping_mul(8).wrapping_add(k);
                ch.send(v);
                if model.len() < 5 {
                    model.push_back(v);
                }
            }
            let take = if x % 5 == 0 { 0 } else { burst };
            for _ in 0..take {
                let got = ch.recv();
                let want = model.pop_front();
                if got != want && bad.is_none() {
                    bad = Some(format!("round {}: recv returned {:?}, the 5-place FIFO model says {:?}", i, got, want));
                }
            }
        }
        bad
    });
    match r {
        Ok(None) => {}
        Ok(Some(msg)) => rep.viol("C06/soak-mismatch", msg),
        Err(_) => {
            let m = vsched::take_last_panic().unwrap_or_default();
            rep.viol("C08/panic=long-run", format!("a channel operation panicked after a long single-threaded history: {}", m));
            rep.viol("C06/soak-mismatch", format!("panic: {}", m));
        }
    }
    rep.sample = Some(json!({"soak": {"rounds": rounds}}));
    if let Some(v) = report.absorb(def, &rep, &known) {
        report.violation = Some((v.key, v.msg, json!({"Soak": {"rounds": rounds}})));
    }
}

/// Real-thread stress (worker 0 of C07): one thread keeps draining `pending()` of an instance
/// with an info-carrying exfiltrator while another keeps calling `add_signal` with numbers the OS
/// rejects (each attempt prepares the slot's channel before it fails) and a third delivers real
/// signals. The harness allocator poisons freed blocks, so a channel that is freed or replaced
/// while the reader may still be inside it shows as a panic or a crash of the child.
fn reinit_stress(def: &PropDef, args: &WorkerArgs, report: &mut WorkerReport) {
    use crate::forkrun::{emit, fork_stream, End};
    use signal_hook::iterator::exfiltrator::{WithOrigin, WithRawSiginfo};
    use signal_hook::iterator::SignalsInfo;
    let known = Known::load();
    let rounds: u32 = if args.tier == Tier::Thorough { 3_000_000 } else { 150_000 };
    for exf in 0..2u8 {
        let (recs, end) = fork_stream(60_000, move |fd| {
            vsched::install();
            crate::forkrun::ignore_sigpipe();
            fn run<E: signal_hook::iterator::exfiltrator::Exfiltrator + Default + 'static>(rounds: u32) -> bool
            where
                E::Output: Send,
            {
                let mut signals = SignalsInfo::<E>::new(&[libc::SIGUSR1]).expect("instance");
                let handle = signals.handle();
                let stop = Arc::new(std::sync::atomic::AtomicBool::new(false));
                let s2 = stop.clone();
                let reader = std::thread::spawn(move || {
                    let r = std::panic::catch_unwind(std::panic::AssertUnwindSafe(|| {
                        while !s2.load(Ordering::SeqCst) {
                            for _ in signals.pending() {}
                        }
                    }));
                    r.is_ok()
                });
                let h2 = handle.clone();
                let adder = std::thread::spawn(move || {
                    for i in 0..rounds {
                        let _ = h2.add_signal([65, 127, 33][i as usize % 3]);
                    }
                });
                for _ in 0..rounds / 50 {
                    unsafe { libc::raise(libc::SIGUSR1) };
                }
                let _ = adder.join();
                stop.store(true, Ordering::SeqCst);
                reader.join().unwrap_or(false)
            }
            let ok = if exf == 0 { run::<WithRawSiginfo>(rounds) } else { run::<WithOrigin>(rounds) };
            emit(fd, &json!({"k": "stress", "reader_ok": ok}));
            emit(fd, &json!({"k": "done"}));
        });
        let mut rep = CaseReport::default();
        rep.hash = hash_of(&("reinit-stress", exf, rounds));
        rep.class("reinit-stress");
        rep.nontrivial = true;
        rep.sample = Some(json!({"reinit_stress": {"exfiltrator": exf, "rounds": rounds}, "records": recs, "end": format!("{:?}", end)}));
        match end {
            End::Exited(0) if recs.iter().any(|r| r["k"] == "done") => {
                if recs.iter().any(|r| r["k"] == "stress" && r["reader_ok"] != true) {
                    rep.viol("C07/channel-panic", "a reader draining pending() panicked while another thread repeated add_signal calls that fail: the channel it was reading had been freed or replaced under it".into());
                }
            }
            End::Signaled(s) => rep.viol("C07/channel-panic", format!("reader / adder stress: the process was killed by signal {} (memory of a channel reused while in use)", s)),
            End::Timeout => rep.inconclusive = Some("reinit stress timed out".into()),
            other => rep.inconclusive = Some(format!("reinit stress ended {:?}", other)),
        }
        if let Some(v) = report.absorb(def, &rep, &known) {
            report.violation = Some((v.key, v.msg, json!({"Soak": {"rounds": rounds}})));
            return;
        }
    }
}
