//! C03 — dispatch is async-signal-safe. Three generated families share one verdict:
//!   * registry scenarios (reg.rs) with isolated deliveries,
//!   * iterator scenarios (iter.rs): the exfiltrating actions under the same operation-kind rule,
//!   * bursts of real deliveries through every built-in action with full / undrained self-pipes
//!     (forkprobe): a delivery that waits for somebody else shows as a child stuck in a syscall.

use crate::driver::*;
use crate::forkrun::*;
use crate::iter::IterCase;
use crate::reg::{Focus, RegCase};
use libc::c_int;
use proptest::collection::vec;
use proptest::prelude::*;
use serde::{Deserialize, Serialize};
use serde_json::{json, Value};
use signal_hook::iterator::exfiltrator::{SignalOnly, WithOrigin, WithRawSiginfo};
use signal_hook::iterator::SignalsInfo;
use std::sync::atomic::{AtomicBool, AtomicUsize, Ordering};
use std::sync::Arc;

#[derive(Clone, Debug, Serialize, Deserialize)]
pub enum BAct {
    Flag,
    Usize,
    ShutdownFalse,
    /// self-pipe: kind 0 pipe, 1 stream, 2 dgram, 3 seqpacket; pre-filled to EAGAIN or not
    Pipe { kind: u8, full: bool },
    /// an iterator instance nobody drains: 0 SignalOnly, 1 Raw, 2 Origin
    Iter { exf: u8 },
    /// one pipe (kind as above) serving two registrations through dup'ed descriptors; the
    /// first-made registration is removed again before the burst, the pipe is full
    PipeSibling { kind: u8 },
}

#[derive(Clone, Debug, Serialize, Deserialize)]
pub struct BurstCase {
    pub actions: Vec<BAct>,
    pub n: u16,
}

#[derive(Clone, Debug, Serialize, Deserialize)]
pub enum C03Case {
    Reg(RegCase),
    Iter(IterCase),
    Burst(BurstCase),
}

fn burst_strategy() -> BoxedStrategy<BurstCase> {
    let act = prop_oneof![
        4 => Just(BAct::Flag),
        4 => Just(BAct::Usize),
        4 => Just(BAct::ShutdownFalse),
        12 => (0u8..4, any::<bool>()).prop_map(|(kind, full)| BAct::Pipe { kind, full }),
        12 => (0u8..3).prop_map(|exf| BAct::Iter { exf }),
        1 => (0u8..4).prop_map(|kind| BAct::PipeSibling { kind }),
    ];
    (vec(act, 1..5), prop_oneof![1 => 1u16..50, 2 => 300u16..1500, 1 => 1500u16..4000])
        .prop_map(|(actions, n)| BurstCase { actions, n })
        .boxed()
}

pub fn strategy() -> BoxedStrategy<C03Case> {
    prop_oneof![
        6 => crate::reg::strategy(Focus::C03).prop_map(C03Case::Reg),
        3 => crate::iter::strategy(false).prop_map(C03Case::Iter),
        1 => burst_strategy().prop_map(C03Case::Burst),
    ]
    .boxed()
}

const SIG: c_int = libc::SIGUSR1;

fn burst_child(case: &BurstCase, fd: i32) {
    crate::vsched::install();
    ignore_sigpipe();
    let flag = Arc::new(AtomicBool::new(false));
    let uflag = Arc::new(AtomicUsize::new(0));
    let mut keep: Vec<Box<dyn std::any::Any>> = Vec::new();
    let mut raw_keep: Vec<i32> = Vec::new();
    for a in &case.actions {
        match a {
            BAct::Flag => {
                let _ = signal_hook::flag::register(SIG, flag.clone());
            }
            BAct::Usize => {
                let _ = signal_hook::flag::register_usize(SIG, uflag.clone(), 42);
            }
            BAct::ShutdownFalse => {
                let _ = signal_hook::flag::register_conditional_shutdown(SIG, 9, Arc::new(AtomicBool::new(false)));
            }
            BAct::Pipe { kind, full } => {
                let mut fds = [0i32; 2];
                let r = unsafe {
                    match kind % 4 {
                        0 => libc::pipe(fds.as_mut_ptr()),
                        1 => libc::socketpair(libc::AF_UNIX, libc::SOCK_STREAM, 0, fds.as_mut_ptr()),
                        2 => libc::socketpair(libc::AF_UNIX, libc::SOCK_DGRAM, 0, fds.as_mut_ptr()),
                        _ => libc::socketpair(libc::AF_UNIX, libc::SOCK_SEQPACKET, 0, fds.as_mut_ptr()),
                    }
                };
                if r != 0 {
                    continue;
                }
                if *full {
                    let d = unsafe { libc::dup(fds[1]) };
                    unsafe {
                        let fl = libc::fcntl(d, libc::F_GETFL);
                        libc::fcntl(d, libc::F_SETFL, fl | libc::O_NONBLOCK);
                        let b = b'P';
                        let mut k = 0;
                        while libc::write(d, &b as *const u8 as *const _, 1) == 1 && k < 2_000_000 {
                            k += 1;
                        }
                        libc::fcntl(d, libc::F_SETFL, fl);
                    }
                    raw_keep.push(d);
                }
                raw_keep.push(fds[0]);
                let _ = signal_hook::low_level::pipe::register_raw(SIG, fds[1]);
            }
            BAct::PipeSibling { kind } => {
                let mut fds = [0i32; 2];
                let r = unsafe {
                    match kind % 4 {
                        0 => libc::pipe(fds.as_mut_ptr()),
                        1 => libc::socketpair(libc::AF_UNIX, libc::SOCK_STREAM, 0, fds.as_mut_ptr()),
                        2 => libc::socketpair(libc::AF_UNIX, libc::SOCK_DGRAM, 0, fds.as_mut_ptr()),
                        _ => libc::socketpair(libc::AF_UNIX, libc::SOCK_SEQPACKET, 0, fds.as_mut_ptr()),
                    }
                };
                if r != 0 {
                    continue;
                }
                let second = unsafe { libc::dup(fds[1]) };
                raw_keep.push(fds[0]);
                let first_id = signal_hook::low_level::pipe::register_raw(SIG, fds[1]);
                let _ = signal_hook::low_level::pipe::register_raw(SIG, second);
                if let Ok(id) = first_id {
                    signal_hook::low_level::unregister(id);
                }
                // fill it through the surviving registration itself (no descriptor flag is touched
                // by the harness: the flags live on the shared open file description)
                emit(fd, &json!({"k": "burst-start", "n": 70_000, "what": "filling the shared pipe through the surviving registration"}));
                for _ in 0..70_000 {
                    unsafe { libc::raise(SIG) };
                }
            }
            BAct::Iter { exf } => match exf % 3 {
                0 => {
                    if let Ok(s) = SignalsInfo::<SignalOnly>::new(&[SIG]) {
                        keep.push(Box::new(s));
                    }
                }
                1 => {
                    if let Ok(s) = SignalsInfo::<WithRawSiginfo>::new(&[SIG]) {
                        keep.push(Box::new(s));
                    }
                }
                _ => {
                    if let Ok(s) = SignalsInfo::<WithOrigin>::new(&[SIG]) {
                        keep.push(Box::new(s));
                    }
                }
            },
        }
    }
    emit(fd, &json!({"k": "burst-start", "n": case.n}));
    let t0 = std::time::Instant::now();
    for _ in 0..case.n {
        unsafe { libc::raise(SIG) };
    }
    emit(fd, &json!({"k": "burst-done", "ms": t0.elapsed().as_millis() as u64, "flag": flag.load(Ordering::SeqCst), "uflag": uflag.load(Ordering::SeqCst)}));
    drop(keep);
    for f in raw_keep {
        unsafe { libc::close(f) };
    }
    emit(fd, &json!({"k": "done"}));
}

fn run_burst(case: &BurstCase) -> CaseReport {
    let c2 = case.clone();
    let (recs, end) = fork_stream(4_000, move |fd| burst_child(&c2, fd));
    let mut rep = CaseReport::default();
    rep.hash = hash_of(&format!("{:?}", case));
    rep.class("real-burst");
    rep.nontrivial = case.actions.iter().any(|a| matches!(a, BAct::Pipe { full: true, .. } | BAct::Iter { .. } | BAct::PipeSibling { .. })) && case.n >= 300;
    rep.nontrivial_by = vec![("C03".into(), rep.nontrivial)];
    rep.sample = Some(json!({"burst": case, "records": recs, "end": format!("{:?}", end)}));
    match &end {
        End::Timeout => {
            let started = recs.iter().any(|r| r["k"] == "burst-start");
            let finished = recs.iter().any(|r| r["k"] == "burst-done");
            let sys = last_timeout_syscall();
            let nr = sys.split_whitespace().next().unwrap_or("").to_string();
            // evidence: the process is inside a system call (any) while delivering; "running"
            // would mean an endless loop - both are a delivery that does not finish
            if started && !finished {
                rep.viol(
                    "C03/blocked",
                    format!("a burst of {} real deliveries did not finish: the process is stuck (syscall state `{}`{})", case.n, sys.trim(),
                        if nr == libc::SYS_write.to_string() || nr == libc::SYS_sendto.to_string() { ": a blocking write inside the handler" } else { "" }),
                );
            } else {
                rep.inconclusive = Some(format!("burst probe timed out outside the burst ({})", sys.trim()));
            }
        }
        End::Infra(e) => rep.inconclusive = Some(e.clone()),
        End::Signaled(s) => rep.viol(&format!("crash/sig={}", s), format!("the process was killed by signal {} during a burst of deliveries", s)),
        End::Exited(c) => {
            if *c != 0 || !recs.iter().any(|r| r["k"] == "done") {
                rep.viol("C03/abort", format!("the process exited with {} during a burst of deliveries", c));
            }
        }
    }
    rep
}

pub fn run_case(case: &C03Case) -> CaseReport {
    match case {
        C03Case::Reg(c) => crate::reg::run_case(c),
        C03Case::Iter(c) => crate::iter::run_case(c),
        C03Case::Burst(c) => run_burst(c),
    }
}

fn worker(def: &PropDef, args: &WorkerArgs) -> WorkerReport {
    generic_worker(def, args, strategy(), &run_case)
}

/// one burst per built-in action kind, every run
fn extra(def: &PropDef, _args: &WorkerArgs, report: &mut WorkerReport) {
    let known = Known::load();
    let mut cases: Vec<BurstCase> = Vec::new();
    for exf in 0..3u8 {
        cases.push(BurstCase { actions: vec![BAct::Iter { exf }], n: 2500 });
    }
    for kind in 0..4u8 {
        for full in [false, true] {
            cases.push(BurstCase { actions: vec![BAct::Pipe { kind, full }], n: 1200 });
        }
    }
    cases.push(BurstCase { actions: vec![BAct::Flag, BAct::Usize, BAct::ShutdownFalse], n: 500 });
    cases.push(BurstCase { actions: vec![BAct::PipeSibling { kind: 0 }], n: 500 });
    for c in cases {
        let case = C03Case::Burst(c);
        let rep = run_case(&case);
        if let Some(v) = report.absorb(def, &rep, &known) {
            report.violation = Some((v.key, v.msg, serde_json::to_value(&case).unwrap()));
            return;
        }
    }
}

fn replay(v: &Value) -> CaseReport {
    // accept bare RegCase replays from before the families were merged
    if let Ok(case) = serde_json::from_value::<C03Case>(v.clone()) {
        return run_case(&case);
    }
    let case: RegCase = serde_json::from_value(v.clone()).expect("case");
    crate::reg::run_case(&case)
}

pub static C03: PropDef = PropDef {
    id: "C03",
    prefixes: &["C03/", "crash/sig=6"],
    rule: "three proptest-generated families: (a) registry programs (register/unregister/deliver on 3 signals, nested deliveries) with isolated deliveries - every other thread frozen, on a fresh or on the interrupted thread, one forked child per case; (b) iterator scenarios (3 exfiltrators x 4 consumer modes) whose exfiltrating actions run under the same rule; (c) bursts of 1..4000 real deliveries through generated sets of built-in actions (flag, usize flag, conditional shutdown with a false condition, self-pipe on pipe/stream/dgram/seqpacket pre-filled to EAGAIN or empty, one pipe shared by two registrations through dup'ed descriptors with the first one removed again, undrained iterator instances), one burst per built-in action kind on every run. Oracle: inside a delivery only atomic load/store/RMW and the wake write (no lock, yield, spin, block), bounded own atomic steps, zero heap operations by library code (global allocator wrapper), an isolated delivery finishes alone, bursts finish (watchdog + /proc syscall evidence), child neither aborted nor killed. Non-trivial = delivery began strictly inside a register/unregister/iterator call, or a burst >=300 against a full self-pipe or undrained iterator; distinct = hash of realised interleaving / case value",
    assumptions: &[
        "deliveries in families (a),(b) are simulated: the real dispatcher is called at instrumented points; family (c) uses real signals",
        "arrival points are shim operations; locks taken through primitives the shim does not see are visible only if they allocate or block for real (family c)",
    ],
    cases: (1500, 40_000),
    shrink_iters: 300,
    worker,
    replay,
    extra: Some(extra),
};
