//! C13 — self-pipe wake: one non-blocking byte per delivery; descriptor owned and closed once.

use crate::driver::*;
use crate::forkrun::*;
use libc::c_int;
use proptest::collection::vec;
use proptest::prelude::*;
use serde::{Deserialize, Serialize};
use serde_json::{json, Value};
use std::os::unix::io::FromRawFd;

#[derive(Clone, Debug, Serialize, Deserialize)]
pub struct C13Case {
    /// 0 pipe, 1 unix stream pair, 2 unix dgram pair, 3 seqpacket pair, 4 the iterator backend
    /// (SignalDelivery::with_pipe) over a harness stream pair
    pub kind: u8,
    /// register_raw (true) or register with an owned descriptor (false)
    pub raw: bool,
    /// 0 empty, 1 `k` bytes, 2 full to EAGAIN
    pub fill: u8,
    pub k: u16,
    pub bursts: Vec<u16>,
    /// a second self-pipe registered on the same signal
    pub second: bool,
    /// rejected registration first: 0 none, 1 forbidden signal, 2 invalid signal, 3 closed descriptor, 4 descriptor -1
    pub reject: u8,
    pub reuse_probe: bool,
    /// the interrupted thread's errno at the instant of each delivery (what an earlier,
    /// unrelated system call left behind): 0 untouched, 1 EINTR, 2 EAGAIN, 3 EBADF, 4 EPIPE
    #[serde(default)]
    pub errno_before: u8,
    /// the second registration shares the first one's pipe through a dup'ed descriptor (one pipe
    /// serving two registrations): file status flags live on the shared open file description
    #[serde(default)]
    pub share: bool,
    /// the reader hangs up (all read ends closed) before the last burst: wake-ups fail with EPIPE,
    /// the descriptor nevertheless stays the action's until the action is removed
    #[serde(default)]
    pub reader_gone: bool,
}

pub fn strategy() -> BoxedStrategy<C13Case> {
    (
        0u8..5,
        any::<bool>(),
        prop_oneof![2 => Just(0u8), 2 => Just(1u8), 2 => Just(2u8)],
        1u16..400,
        vec(prop_oneof![4 => 1u16..8, 3 => 8u16..300, 1 => 300u16..5000], 1..4),
        prop::bool::weighted(0.3),
        prop_oneof![5 => Just(0u8), 1 => Just(1u8), 1 => Just(2u8), 1 => Just(3u8), 1 => Just(4u8)],
        prop::bool::weighted(0.5),
        prop_oneof![3 => Just(0u8), 2 => Just(1u8), 1 => Just(2u8), 1 => Just(3u8), 1 => Just(4u8)],
        prop::bool::weighted(0.5),
        prop::bool::weighted(0.2),
    )
        .prop_map(|(kind, raw, fill, k, bursts, second, reject, reuse_probe, errno_before, share, reader_gone)| C13Case { kind, raw, fill, k, bursts, second, reject, reuse_probe, errno_before, share, reader_gone })
        .boxed()
}

fn base(kind: u8) -> u8 {
    if kind % 5 == 4 {
        1
    } else {
        kind % 5
    }
}

/// a third of the cases hand over descriptor numbers above 1100 (beyond FD_SETSIZE: nothing in the
/// wake-up path may depend on select-style sets or on small numbers); derived from `case.k`
static HIGH_FDS: std::sync::atomic::AtomicBool = std::sync::atomic::AtomicBool::new(false);

fn lift(fd: i32) -> i32 {
    if !HIGH_FDS.load(std::sync::atomic::Ordering::Relaxed) {
        return fd;
    }
    let n = unsafe { libc::fcntl(fd, libc::F_DUPFD, 1100) };
    if n < 0 {
        return fd;
    }
    unsafe { libc::close(fd) };
    n
}

/// the reuse probes need "the same number again": for lifted numbers the kernel's lowest-free rule
/// does not provide it, so move the new pipe's write end there
fn retake(p: &mut [i32; 2], want: i32) {
    if want >= 1100 && p[0] != want && p[1] != want && unsafe { libc::fcntl(want, libc::F_GETFD) } < 0 {
        if unsafe { libc::dup2(p[1], want) } == want {
            unsafe { libc::close(p[1]) };
            p[1] = want;
        }
    }
}

fn make_pair(kind: u8) -> Option<(i32, i32)> {
    let kind = base(kind);
    let mut fds = [0i32; 2];
    let r = unsafe {
        match kind % 4 {
            0 => libc::pipe(fds.as_mut_ptr()),
            1 => libc::socketpair(libc::AF_UNIX, libc::SOCK_STREAM, 0, fds.as_mut_ptr()),
            2 => libc::socketpair(libc::AF_UNIX, libc::SOCK_DGRAM, 0, fds.as_mut_ptr()),
            _ => libc::socketpair(libc::AF_UNIX, libc::SOCK_SEQPACKET, 0, fds.as_mut_ptr()),
        }
    };
    if r != 0 {
        return None;
    }
    // for a pipe fds[0] is the read end; for socket pairs either works: read from 0, write to 1.
    // The harness reads without blocking.
    set_nonblock(fds[0]);
    fds[1] = lift(fds[1]);
    Some((fds[0], fds[1]))
}

fn set_nonblock(fd: i32) {
    unsafe {
        let fl = libc::fcntl(fd, libc::F_GETFL);
        libc::fcntl(fd, libc::F_SETFL, fl | libc::O_NONBLOCK);
    }
}

/// write one byte `b`, never blocking; true if it went in
fn put(fd: i32, b: u8) -> bool {
    let n = unsafe { libc::write(fd, &b as *const u8 as *const _, 1) };
    n == 1
}

/// drain everything readable without blocking: (messages/bytes read as a byte vector, one entry
/// per byte for stream kinds, one entry per datagram (0xFF for an empty one) for datagram kinds)
fn drain(fd: i32, kind: u8) -> Vec<u8> {
    let kind = base(kind);
    let mut out = Vec::new();
    loop {
        let mut buf = [0u8; 4096];
        let n = unsafe { libc::recv(fd, buf.as_mut_ptr() as *mut _, if kind % 4 >= 2 { 16 } else { buf.len() }, libc::MSG_DONTWAIT) };
        let n = if n < 0 && kind % 4 == 0 {
            // a pipe is not a socket
            unsafe { libc::read(fd, buf.as_mut_ptr() as *mut _, buf.len()) }
        } else {
            n
        };
        if n < 0 {
            break;
        }
        if kind % 4 >= 2 {
            out.push(if n == 0 { 0xFF } else { buf[0] });
        } else {
            if n == 0 {
                break;
            }
            out.extend_from_slice(&buf[..n as usize]);
        }
        if out.len() > 200_000 {
            break;
        }
    }
    out
}

const SIG: c_int = libc::SIGUSR1;

fn register(raw: bool, sig: c_int, w: i32) -> Result<signal_hook::SigId, String> {
    let r = std::panic::catch_unwind(|| {
        if raw {
            signal_hook::low_level::pipe::register_raw(sig, w)
        } else {
            let owned = unsafe { std::fs::File::from_raw_fd(w) };
            signal_hook::low_level::pipe::register(sig, owned)
        }
    });
    match r {
        Ok(Ok(id)) => Ok(id),
        Ok(Err(e)) => Err(format!("err:{}", e.raw_os_error().unwrap_or(-1))),
        Err(_) => Err("panic".into()),
    }
}

fn child(case: &C13Case, fd: i32) {
    crate::vsched::install();
    ignore_sigpipe();
    let kind = case.kind % 5;
    HIGH_FDS.store(case.k % 3 == 0, std::sync::atomic::Ordering::Relaxed);
    if !crate::sysspy::active() {
        emit(fd, &json!({"k": "infra", "what": "write/send interposition is not active in this executable"}));
        return;
    }
    crate::sysspy::unwatch_all();
    // measure capacity on a twin
    let cap = {
        let (tr, tw) = match make_pair(kind) {
            Some(p) => p,
            None => {
                emit(fd, &json!({"k": "infra", "what": "pair"}));
                return;
            }
        };
        set_nonblock(tw);
        let mut n = 0u32;
        while put(tw, b'P') {
            n += 1;
            if n > 1_000_000 {
                break;
            }
        }
        unsafe {
            libc::close(tr);
            libc::close(tw);
        }
        n
    };
    emit(fd, &json!({"k": "cap", "cap": cap}));
    // a rejected registration first
    if case.reject != 0 {
        let (r, w) = make_pair(kind).unwrap();
        let (sig, wfd) = match case.reject {
            1 => (libc::SIGSEGV, w),
            2 => (1000, w),
            3 => {
                unsafe { libc::close(w) };
                (SIG, w)
            }
            _ => {
                unsafe { libc::close(w) };
                (SIG, -1)
            }
        };
        let d0 = dispositions();
        // an owned descriptor object cannot hold -1 (std asserts), so that variant is raw only
        let res = register(case.raw || wfd < 0, sig, wfd);
        let still_open = wfd >= 0 && fd_valid(wfd);
        // re-open the same number for something unrelated and keep it to the end
        let mut reuse: Option<(i32, i32)> = None;
        if wfd >= 0 && !still_open {
            let mut p = [0i32; 2];
            unsafe { libc::pipe(p.as_mut_ptr()) };
            retake(&mut p, wfd);
            reuse = Some((p[0], p[1]));
        }
        emit(fd, &json!({"k": "reject", "res": res.as_ref().err().cloned().unwrap_or("ok".into()), "still_open": still_open, "unchanged": dispositions() == d0, "reused_number": reuse.map_or(false, |p| p.0 == wfd || p.1 == wfd)}));
        // keep `r` and the reuse pipe; checked at the end
        REUSE.with(|c| c.borrow_mut().push((reuse, r)));
    }
    let (r, w) = make_pair(kind).unwrap();
    let wdup = unsafe { libc::dup(w) };
    // pre-fill through the dup, non-blocking
    let mut prefill = 0u32;
    {
        let fl = unsafe { libc::fcntl(wdup, libc::F_GETFL) };
        set_nonblock(wdup);
        let want = match case.fill {
            0 => 0,
            1 => case.k as u32,
            _ => u32::MAX,
        };
        while prefill < want && put(wdup, b'P') {
            prefill += 1;
        }
        // restore the original flags: the library must arrange non-blocking behaviour itself
        unsafe { libc::fcntl(wdup, libc::F_SETFL, fl) };
    }
    let mut delivery = None;
    let id = if kind == 4 {
        use std::os::unix::net::UnixStream;
        let rdup = unsafe { libc::dup(r) };
        let d = unsafe {
            signal_hook::iterator::backend::SignalDelivery::with_pipe(
                UnixStream::from_raw_fd(rdup),
                UnixStream::from_raw_fd(w),
                signal_hook::iterator::exfiltrator::SignalOnly::default(),
                &[SIG],
            )
        };
        match d {
            Ok(d) => delivery = Some(d),
            Err(e) => {
                emit(fd, &json!({"k": "infra", "what": format!("with_pipe failed: {}", e)}));
                return;
            }
        }
        None
    } else {
        match register(case.raw, SIG, w) {
            Ok(id) => Some(id),
            Err(e) => {
                emit(fd, &json!({"k": "infra", "what": format!("registration failed: {}", e)}));
                return;
            }
        }
    };
    // from here on every write/send attempt on the write end's descriptor number is counted
    crate::sysspy::watch(0, w);
    let flags_after = unsafe { libc::fcntl(wdup, libc::F_GETFL) };
    emit(fd, &json!({"k": "registered", "prefill": prefill, "nonblock": flags_after & libc::O_NONBLOCK != 0, "w": w}));
    let second = if case.second {
        let (r2, w2) = if case.share && kind != 4 {
            // the same pipe through another descriptor; its reader is the first one's
            (r, unsafe { libc::dup(wdup) })
        } else {
            make_pair(kind).unwrap()
        };
        match register(case.raw, SIG, w2) {
            Ok(id2) => {
                crate::sysspy::watch(1, w2);
                Some((r2, w2, id2))
            }
            Err(_) => None,
        }
    } else {
        None
    };
    let mut first = true;
    let shared_second = second.as_ref().map_or(false, |s| s.0 == r);
    let mut reader_closed = false;
    for (bi, n) in case.bursts.iter().enumerate() {
        if case.reader_gone && kind != 4 && bi + 1 == case.bursts.len() && !reader_closed {
            // every read end goes away: from now on a wake-up attempt fails with EPIPE
            unsafe { libc::close(r) };
            reader_closed = true;
            emit(fd, &json!({"k": "reader-gone"}));
        }
        emit(fd, &json!({"k": "burst-start", "i": bi, "n": n}));
        let e = match case.errno_before % 5 {
            1 => libc::EINTR,
            2 => libc::EAGAIN,
            3 => libc::EBADF,
            4 => libc::EPIPE,
            _ => 0,
        };
        let (a0, a1) = (crate::sysspy::attempts(0), crate::sysspy::attempts(1));
        // a handler that keeps trying (retry on EAGAIN, spin until there is room) is stopped and
        // reported by the interposer itself: at most one attempt per delivery and self-pipe
        crate::sysspy::set_limit(fd, *n as u64 * if second.is_some() { 2 } else { 1 });
        for _ in 0..*n {
            unsafe {
                if e != 0 {
                    *libc::__errno_location() = e;
                }
                libc::raise(SIG)
            };
        }
        crate::sysspy::clear_limit();
        let (att, att2) = (crate::sysspy::attempts(0) - a0, crate::sysspy::attempts(1) - a1);
        if reader_closed {
            // nothing can be read back; what matters is that the action still owns its descriptor
            emit(fd, &json!({"k": "burst-readerless", "i": bi, "n": n, "att": att, "w_open": fd_valid(w), "w2_open": second.as_ref().map(|s| fd_valid(s.1))}));
            continue;
        }
        let got = drain(r, kind);
        let xs = got.iter().filter(|b| **b == b'X').count();
        let ps = got.iter().filter(|b| **b == b'P').count();
        let empties = got.iter().filter(|b| **b == 0xFF).count();
        let other = got.len() - xs - ps - empties;
        let mut rec = json!({"k": "burst", "i": bi, "n": n, "x": xs, "shared": shared_second, "p": ps, "empty": empties, "other": other, "prefill": if first { prefill } else { 0 }, "att": att, "att2": att2,
            "not_one": crate::sysspy::not_one(0) + crate::sysspy::not_one(1), "blocking_sends": crate::sysspy::blocking_sends(0) + crate::sysspy::blocking_sends(1)});
        if let Some((r2, _, _)) = second.as_ref().filter(|s| s.0 != r) {
            let g2 = drain(*r2, kind);
            rec["x2"] = json!(g2.iter().filter(|b| **b == b'X').count());
            rec["other2"] = json!(g2.iter().filter(|b| **b != b'X' && **b != 0xFF).count());
        }
        emit(fd, &rec);
        first = false;
    }
    // unregister: the descriptor must be closed now
    let un = match id {
        Some(id) => signal_hook::low_level::unregister(id),
        None => {
            drop(delivery.take());
            true
        }
    };
    let open_after = fd_valid(w);
    let sibling_nonblock = if shared_second { Some(unsafe { libc::fcntl(wdup, libc::F_GETFL) } & libc::O_NONBLOCK != 0) } else { None };
    emit(fd, &json!({"k": "unregistered", "ret": un, "w_open": open_after, "sibling_nonblock": sibling_nonblock}));
    let att_at_removal = crate::sysspy::attempts(0);
    if case.reuse_probe && !open_after {
        // take the number for an unrelated pipe and go on living
        let mut p = [0i32; 2];
        unsafe { libc::pipe(p.as_mut_ptr()) };
        retake(&mut p, w);
        let same = p[0] == w || p[1] == w;
        for _ in 0..5 {
            unsafe { libc::raise(SIG) };
        }
        // somebody else registers a self-pipe on the same signal in the meantime; the stale id must
        // stay dead and must not take the newcomer with it
        let third = make_pair(kind % 4).and_then(|(r3, w3)| register(case.raw, SIG, w3).ok().map(|id3| (r3, w3, id3)));
        let un2 = id.map_or(false, signal_hook::low_level::unregister);
        if let Some((r3, w3, id3)) = third {
            let open3 = fd_valid(w3);
            drain(r3, kind % 4);
            unsafe { libc::raise(SIG) };
            let g3 = drain(r3, kind % 4);
            let un3 = signal_hook::low_level::unregister(id3);
            emit(fd, &json!({"k": "newcomer", "open": open3, "x": g3.iter().filter(|b| **b == b'X').count(), "unregister": un3}));
        }
        let valid = fd_valid(p[0]) && fd_valid(p[1]);
        set_nonblock(p[0]);
        let mut b = [0u8; 16];
        let n = unsafe { libc::read(p[0], b.as_mut_ptr() as *mut _, 16) };
        emit(fd, &json!({"k": "reuse", "same_number": same, "second_unregister": un2, "still_valid": valid, "bytes": n.max(0), "att_after_removal": crate::sysspy::attempts(0) - att_at_removal}));
        // bytes written after removal would also reach the old reader
        if !reader_closed {
            let late = drain(r, kind);
            emit(fd, &json!({"k": "late", "x": late.iter().filter(|b| **b == b'X').count()}));
        }
    }
    if reader_closed {
        if let Some((_, _, id2)) = second {
            signal_hook::low_level::unregister(id2);
        }
    } else if let Some((r2, _w2, id2)) = second {
        // the second registration keeps working after the first is gone
        drain(r2, kind);
        unsafe { libc::raise(SIG) };
        let g2 = drain(r2, kind);
        emit(fd, &json!({"k": "second-after", "x": g2.iter().filter(|b| **b == b'X').count()}));
        signal_hook::low_level::unregister(id2);
    }
    // the descriptors re-opened after a rejected registration are untouched
    REUSE.with(|c| {
        for (reuse, r0) in c.borrow().iter() {
            if let Some((a, b)) = reuse {
                let valid = fd_valid(*a) && fd_valid(*b);
                set_nonblock(*a);
                let mut buf = [0u8; 16];
                let n = unsafe { libc::read(*a, buf.as_mut_ptr() as *mut _, 16) };
                emit(fd, &json!({"k": "reject-reuse", "still_valid": valid, "bytes": n.max(0)}));
            }
            let _ = r0;
        }
    });
    emit(fd, &json!({"k": "done"}));
}

thread_local! {
    static REUSE: std::cell::RefCell<Vec<(Option<(i32, i32)>, i32)>> = const { std::cell::RefCell::new(Vec::new()) };
}

pub fn run_case(case: &C13Case) -> CaseReport {
    run_probe(case)
}

pub fn run_probe(case: &C13Case) -> CaseReport {
    let c2 = case.clone();
    let (recs, end) = fork_stream(30_000, move |fd| child(&c2, fd));
    let mut rep = CaseReport::default();
    rep.hash = hash_of(&format!("{:?}", case));
    rep.sample = Some(json!({"case": case, "records": recs, "end": format!("{:?}", end)}));
    let kindname = ["pipe", "unix-stream", "unix-dgram", "seqpacket", "iterator-backend"][case.kind as usize % 5];
    rep.class(kindname);
    if case.k % 3 == 0 {
        rep.class("descriptor-numbers-above-1100");
    }
    if recs.iter().any(|r| r["k"] == "infra") {
        rep.inconclusive = Some(format!("{:?}", recs.iter().find(|r| r["k"] == "infra")));
        return rep;
    }
    if recs.iter().any(|r| r["k"] == "over-attempts") {
        rep.viol("C13/attempts", "a delivery made more than one write/send attempt on its self-pipe (stopped by the interposer inside the burst)".into());
        return rep;
    }
    match &end {
        End::Timeout => {
            // the blocked state itself is the property: evidence = the child was inside a burst
            let in_burst = recs.iter().rev().find(|r| r["k"] == "burst-start" || r["k"] == "burst").map_or(false, |r| r["k"] == "burst-start");
            let sys = crate::forkrun::last_timeout_syscall();
            let in_write = sys.split_whitespace().next().map_or(false, |n| n == libc::SYS_write.to_string() || n == libc::SYS_sendto.to_string());
            if in_burst && in_write {
                rep.viol("C13/blocked", format!("a delivery blocked writing to the self-pipe (child stuck in syscall `{}` during a burst)", sys.trim()));
            } else {
                rep.inconclusive = Some(format!("child timed out (syscall: {})", sys.trim()));
            }
            return rep;
        }
        End::Infra(e) => {
            rep.inconclusive = Some(e.clone());
            return rep;
        }
        End::Signaled(s) => {
            rep.viol("C13/died", format!("the process was killed by signal {}", s));
            return rep;
        }
        End::Exited(c) if *c != 0 || !recs.iter().any(|r| r["k"] == "done") => {
            rep.viol("C13/died", format!("the process exited with {} before the history finished", c));
            return rep;
        }
        _ => {}
    }
    let cap = recs.iter().find(|r| r["k"] == "cap").and_then(|r| r["cap"].as_u64()).unwrap_or(0);
    let reg = recs.iter().find(|r| r["k"] == "registered");
    let prefill = reg.and_then(|r| r["prefill"].as_u64()).unwrap_or(0);
    if case.kind % 5 == 0 && reg.map_or(false, |r| r["nonblock"] != true) {
        rep.viol("C13/blocking-fd", "a pipe was registered but its write end was left in blocking mode".into());
    }
    if let Some(r) = recs.iter().find(|r| r["k"] == "reject") {
        rep.class("rejected-registration");
        let expect_panic = case.reject == 1;
        let res = r["res"].as_str().unwrap_or("");
        if (expect_panic && res != "panic") || (!expect_panic && !res.starts_with("err")) {
            rep.viol("C13/reject-outcome", format!("rejected registration (variant {}) -> {}", case.reject, res));
        }
        if r["still_open"] == true {
            rep.viol("C13/fd-open", format!("the descriptor handed to a rejected registration (variant {}) is still open", case.reject));
        }
        if r["unchanged"] != true {
            rep.viol("C13/reject-disposition", "a rejected self-pipe registration changed signal dispositions".into());
        }
    }
    for r in recs.iter().filter(|r| r["k"] == "reject-reuse") {
        if r["still_valid"] != true || r["bytes"].as_i64().unwrap_or(0) != 0 {
            rep.viol("C13/fd-reuse-hit", format!("a descriptor number given to a rejected registration and reused by the application was touched later: {}", r));
        }
    }
    let mut pending_before = prefill; // bytes in the pipe before the burst that the drain will see
    for r in recs.iter().filter(|r| r["k"] == "burst") {
        let n = r["n"].as_u64().unwrap_or(0);
        let x = r["x"].as_u64().unwrap_or(0);
        let p = r["p"].as_u64().unwrap_or(0);
        let other = r["other"].as_u64().unwrap_or(0);
        let empties = r["empty"].as_u64().unwrap_or(0);
        if other > 0 {
            rep.viol("C13/count", format!("unexpected bytes in the self-pipe: {}", r));
        }
        // two registrations writing into one shared pipe: twice the bytes, two probe messages
        let f = if r["shared"] == true { 2 } else { 1 };
        let att = r["att"].as_u64().unwrap_or(0);
        if att != n {
            rep.viol("C13/attempts", format!("{} deliveries made {} write/send attempts on the self-pipe (exactly one each is required, full or not)", n, att));
        }
        if case.second && recs.iter().any(|x| x["k"] == "second-after") && r["att2"].as_u64().unwrap_or(0) != n {
            rep.viol("C13/attempts", format!("{} deliveries made {} attempts on the second self-pipe", n, r["att2"]));
        }
        if r["not_one"].as_u64().unwrap_or(0) != 0 {
            rep.viol("C13/attempts", format!("{} wake-up attempts were not exactly one byte long", r["not_one"]));
        }
        if r["blocking_sends"].as_u64().unwrap_or(0) != 0 {
            rep.viol("C13/blocking-fd", format!("{} wake-up sends without MSG_DONTWAIT", r["blocking_sends"]));
        }
        if empties > f {
            rep.viol("C13/count", format!("{} empty datagrams (one probe message per registration is documented)", empties));
        }
        if x > f * n {
            rep.viol("C13/count", format!("{} deliveries wrote {} bytes", n, x));
        }
        if n >= 1 && x + p == 0 {
            rep.viol("C13/count", format!("{} deliveries but the reader sees nothing", n));
        }
        // room for all of them: exactly one byte per delivery
        if pending_before + f * n + 2 <= cap / 2 && x != f * n {
            rep.viol("C13/count", format!("{} deliveries into a descriptor with room for {} more bytes wrote {} bytes", n, cap - pending_before, x));
        }
        if pending_before + n > cap {
            rep.class("burst-exceeds-capacity");
        }
        if p != pending_before {
            rep.viol("C13/count", format!("pre-filled bytes changed: {} written, {} read back", pending_before, p));
        }
        if case.second && f == 1 {
            if let Some(x2) = r["x2"].as_u64() {
                if x2 > n || (n >= 1 && x2 == 0) || (n + 2 <= cap / 2 && x2 != n) || r["other2"].as_u64().unwrap_or(0) > 0 {
                    rep.viol("C13/count", format!("second self-pipe on the same signal: {} deliveries, {} bytes", n, x2));
                }
            }
        }
        pending_before = 0;
    }
    for r in recs.iter().filter(|r| r["k"] == "burst-readerless") {
        rep.class("reader-hung-up");
        if r["w_open"] != true || r["w2_open"] == false {
            rep.viol("C01/released-in-handler", "a self-pipe action released the descriptor it captured from inside a signal delivery, while still registered (captures are released once, by the removing thread, outside any handler)".into());
            rep.viol("C13/closed-early", format!("after {} deliveries into a pipe whose reader had hung up, the action's descriptor is gone although the action is still registered (released inside a delivery, not by the removal)", r["n"]));
        }
        let n = r["n"].as_u64().unwrap_or(0);
        if r["att"].as_u64().unwrap_or(0) > n {
            rep.viol("C13/attempts", format!("{} deliveries made {} attempts on a reader-less self-pipe", n, r["att"]));
        }
    }
    if let Some(u) = recs.iter().find(|r| r["k"] == "unregistered") {
        if u["sibling_nonblock"] == false && case.kind % 5 == 0 {
            rep.viol("C13/blocking-fd", "two registrations share one pipe through dup'ed descriptors; removing the first one put the pipe back into blocking mode while the second is still registered".into());
        }
        if u["sibling_nonblock"].is_boolean() {
            rep.class("shared-pipe-sibling");
        }
        if u["ret"] != true {
            rep.viol("C13/unregister", "unregister of the self-pipe action returned false".into());
        }
        if u["w_open"] == true {
            rep.viol("C13/fd-open", "the write end is still open after the action was removed".into());
        }
    }
    if let Some(u) = recs.iter().find(|r| r["k"] == "reuse") {
        rep.class("reuse-probe");
        if u["att_after_removal"].as_u64().unwrap_or(0) != 0 {
            rep.viol("C13/fd-reuse-hit", format!("after removal {} write/send attempts were made on the descriptor number the self-pipe used to have", u["att_after_removal"]));
        }
        if u["still_valid"] != true || u["bytes"].as_i64().unwrap_or(0) != 0 || u["second_unregister"] == true {
            rep.viol("C13/fd-reuse-hit", format!("after removal the descriptor number was reused by the application and then touched by the library: {}", u));
        }
    }
    let shared_any = recs.iter().any(|r| r["k"] == "burst" && r["shared"] == true) || recs.iter().any(|r| r["k"] == "unregistered" && r["sibling_nonblock"].is_boolean());
    if let Some(nc) = recs.iter().find(|r| r["k"] == "newcomer") {
        if nc["open"] != true || nc["x"].as_u64().unwrap_or(0) != 1 || nc["unregister"] != true {
            rep.viol("C13/stale-id-hit", format!("a self-pipe registered after another one had been removed was affected by a second unregister of the old, stale id: {}", nc));
        }
    }
    if let Some(l) = recs.iter().find(|r| r["k"] == "late") {
        // (a sibling registration sharing the pipe legitimately keeps writing into it)
        if l["x"].as_u64().unwrap_or(0) != 0 && !shared_any {
            rep.viol("C13/written-after-removal", "bytes were written to the self-pipe after its action was removed".into());
        }
    }
    if let Some(s) = recs.iter().find(|r| r["k"] == "second-after") {
        if s["x"].as_u64().unwrap_or(0) != 1 {
            rep.viol("C13/count", format!("after removing the first self-pipe the second one received {} bytes for one delivery", s["x"]));
        }
    }
    if case.errno_before % 5 != 0 {
        rep.class("errno-left-by-earlier-call");
    }
    if case.fill == 2 {
        rep.class("full");
    } else if case.fill == 1 {
        rep.class("pre-filled");
    }
    rep.nontrivial = case.fill != 0 || case.reject != 0 || case.reuse_probe || rep.classes.iter().any(|c| c == "burst-exceeds-capacity");
    rep
}

/// The forkprobe family plus iterator scenarios under the executor: deliveries keep arriving
/// while an instance is closed and dropped, and no wake-up may target a released descriptor.
#[derive(Clone, Debug, Serialize, Deserialize)]
pub enum C13Any {
    Probe(C13Case),
    Iter(crate::iter::IterCase),
}

fn run_any(c: &C13Any) -> CaseReport {
    match c {
        C13Any::Probe(c) => run_case(c),
        C13Any::Iter(c) => {
            let mut r = crate::iter::run_case(c);
            let nt = !c.late.is_empty();
            r.nontrivial_by.push(("C13".into(), nt));
            r
        }
    }
}

fn worker(def: &PropDef, args: &WorkerArgs) -> WorkerReport {
    let strat = prop_oneof![
        3 => strategy().prop_map(C13Any::Probe),
        2 => crate::iter::strategy(true).prop_map(C13Any::Iter),
    ]
    .boxed();
    generic_worker(def, args, strat, &run_any)
}

fn replay(v: &Value) -> CaseReport {
    if let Ok(c) = serde_json::from_value::<C13Any>(v.clone()) {
        return run_any(&c);
    }
    let case: C13Case = serde_json::from_value(v.clone()).expect("case");
    run_case(&case)
}

pub static C13: PropDef = PropDef {
    id: "C13",
    prefixes: &["C13/"],
    rule: "forkprobe: descriptor kind {pipe, unix stream, unix dgram, seqpacket} x {register, register_raw} x fill {empty, k bytes, full to EAGAIN} x 1-3 bursts of 1..5000 real raises x optional second self-pipe on the same signal x optional rejected registration first {forbidden signal, invalid signal, closed descriptor, -1} x reuse probe (the freed descriptor number is re-opened by the application and must stay untouched). Capacity is measured on a twin descriptor. Oracle: bytes read back are 'X', never more than deliveries, exactly one per delivery while there is room (<= cap/2), at least one byte visible if any delivery happened; bursts on a full descriptor complete (watchdog + /proc syscall evidence); pipes get O_NONBLOCK; descriptor closed after unregister / rejection and never touched afterwards. Non-trivial = pre-filled or full descriptor, burst beyond capacity, rejected registration or reuse probe; distinct = the case value. Second family: iterator scenarios under the schedule-owning executor (see C09) in which deliveries keep arriving while the instance is closed and dropped - every wake-up write must target a descriptor that is still open (non-trivial there = late deliveries present)",
    assumptions: &[
        "SIGPIPE is ignored in the probe (as in every Rust binary); the harness keeps read ends open",
        "one empty probe datagram per dgram/seqpacket registration is documented behaviour",
    ],
    cases: (500, 15_000),
    shrink_iters: 150,
    worker,
    replay,
    extra: None,
};
