//! C05 — the registry behaves as independent per-signal ordered multisets with unique ids.

use crate::driver::*;
use crate::forkrun::*;
use libc::c_int;
use proptest::collection::vec;
use proptest::prelude::*;
use serde::{Deserialize, Serialize};
use serde_json::{json, Value};
use signal_hook_registry::SigId;
use std::collections::{BTreeMap, BTreeSet, HashSet};
use std::sync::atomic::{AtomicI32, AtomicUsize, Ordering};

/// catchable numbers used by the histories (all can be raised once taken over)
pub const POOL: [c_int; 20] = [
    libc::SIGHUP, libc::SIGINT, libc::SIGQUIT, libc::SIGUSR1, libc::SIGUSR2, libc::SIGPIPE, libc::SIGALRM, libc::SIGTERM,
    libc::SIGCHLD, libc::SIGCONT, libc::SIGURG, libc::SIGXCPU, libc::SIGWINCH, libc::SIGIO, libc::SIGSYS, libc::SIGTTIN,
    34, libc::SIGTSTP, libc::SIGTTOU, 64,
];

#[derive(Clone, Debug, Serialize, Deserialize, PartialEq)]
pub enum Op {
    Register { sig: u8, siginfo: bool },
    Unregister { k: u16 },
    UnregisterSignal { sig: u8 },
    Deliver { sig: u8 },
    /// `low_level::emulate_default_handler` on a signal the library has taken over and whose
    /// default action leaves the process alive (ignore: nothing; stop: the process stops and a
    /// helper process continues it). The registry - and the library's handler with its flags -
    /// must be exactly as before.
    Emulate { sig: u8 },
    /// a registration the OS refuses (signal number 1000, 65 or 0): returns an error and must leave
    /// everything - registry, dispositions, the calling thread's signal mask - as it was
    RegisterRefused { which: u8 },
    /// block the signal in the (only) thread: deliveries made while it is blocked stay pending
    /// (ordinary signals collapse into one, real-time ones queue) ...
    Block { sig: u8 },
    /// ... and arrive at the instant it is unblocked: they run the actions registered at *that*
    /// instant, whatever was registered or removed while they were pending
    Unblock { sig: u8 },
}

/// default action of the pool's signals that does not end the process: 1 ignore, 2 stop
fn survivable_default(s: c_int) -> u8 {
    if [libc::SIGCHLD, libc::SIGCONT, libc::SIGURG, libc::SIGWINCH].contains(&s) {
        1
    } else if [libc::SIGTSTP, libc::SIGTTIN, libc::SIGTTOU].contains(&s) {
        2
    } else {
        0
    }
}

#[derive(Clone, Debug, Serialize, Deserialize)]
pub struct C05Case {
    pub nsig: u8,
    pub ops: Vec<Op>,
    pub restart_probe: bool,
    /// handlers third-party code installed before the library ever saw the signal:
    /// (signal index, flag selection) - see `prior_flags`
    #[serde(default)]
    pub priors: Vec<(u8, u8)>,
}

fn prior_flags(sel: u8) -> libc::c_int {
    match sel % 7 {
        0 => 0,
        1 => libc::SA_RESETHAND,
        2 => libc::SA_NODEFER,
        3 => libc::SA_NOCLDSTOP,
        4 => libc::SA_RESETHAND | libc::SA_SIGINFO,
        5 => libc::SA_RESTART,
        _ => libc::SA_NOCLDWAIT | libc::SA_NODEFER | libc::SA_RESETHAND,
    }
}

/// The kernel discards a pending SIGCONT when a stop signal is generated and pending stop signals
/// when SIGCONT is generated: pending job-control signals are not a plain queue, so the histories
/// never block these four.
fn job_control(s: c_int) -> bool {
    [libc::SIGCONT, libc::SIGTSTP, libc::SIGTTIN, libc::SIGTTOU].contains(&s)
}

static PRIOR_CALLS: AtomicUsize = AtomicUsize::new(0);

extern "C" fn prior1(_sig: c_int) {
    PRIOR_CALLS.fetch_add(1, Ordering::SeqCst);
}

extern "C" fn prior3(_sig: c_int, _info: *mut libc::siginfo_t, _ctx: *mut libc::c_void) {
    PRIOR_CALLS.fetch_add(1, Ordering::SeqCst);
}

pub fn strategy(maxlen: usize) -> BoxedStrategy<C05Case> {
    let op = prop_oneof![
        6 => (0u8..20, any::<bool>()).prop_map(|(sig, siginfo)| Op::Register { sig, siginfo }),
        5 => (0u16..400).prop_map(|k| Op::Unregister { k }),
        1 => (0u8..20).prop_map(|sig| Op::UnregisterSignal { sig }),
        5 => (0u8..20).prop_map(|sig| Op::Deliver { sig }),
        1 => (0u8..20).prop_map(|sig| Op::Emulate { sig }),
        1 => (0u8..3).prop_map(|which| Op::RegisterRefused { which }),
        1 => (0u8..20).prop_map(|sig| Op::Block { sig }),
        2 => (0u8..20).prop_map(|sig| Op::Unblock { sig }),
    ];
    (
        prop_oneof![2 => 1u8..4, 1 => 4u8..21],
        vec(op, 1..maxlen),
        prop::bool::weighted(0.3),
        prop_oneof![2 => Just(vec![]), 1 => vec((0u8..20, 0u8..7), 1..4)],
    )
        .prop_map(|(nsig, mut ops, restart_probe, mut priors)| {
            for p in priors.iter_mut() {
                p.0 %= nsig;
            }
            for o in ops.iter_mut() {
                match o {
                    Op::Register { sig, .. } | Op::UnregisterSignal { sig } | Op::Deliver { sig } | Op::Emulate { sig } | Op::Block { sig } | Op::Unblock { sig } => *sig %= nsig,
                    _ => {}
                }
            }
            C05Case { nsig, ops, restart_probe, priors }
        })
        .boxed()
}

const LOGN: usize = 4096;
static LOG: [AtomicI32; LOGN] = [const { AtomicI32::new(0) }; LOGN];
static LOGPOS: AtomicUsize = AtomicUsize::new(0);
static RESTART_FD: AtomicI32 = AtomicI32::new(-1);

fn log_tag(tag: i32) {
    let p = LOGPOS.fetch_add(1, Ordering::SeqCst);
    if p < LOGN {
        LOG[p].store(tag, Ordering::SeqCst);
    }
}

fn child(case: &C05Case, fd: i32) {
    crate::vsched::install();
    ignore_sigpipe();
    let handler = signal_hook_registry::verif::handler_addr();
    for (si, sel) in &case.priors {
        unsafe {
            let mut sa: libc::sigaction = std::mem::zeroed();
            let fl = prior_flags(*sel);
            sa.sa_flags = fl;
            sa.sa_sigaction = if fl & libc::SA_SIGINFO != 0 { prior3 as usize } else { prior1 as usize };
            libc::sigaction(POOL[*si as usize % 20], &sa, std::ptr::null_mut());
        }
    }
    let mut ids: Vec<SigId> = Vec::new();
    let mut seen: HashSet<SigId> = HashSet::new();
    let mut taken: BTreeSet<c_int> = BTreeSet::new();
    let mut blocked: BTreeSet<c_int> = BTreeSet::new();
    let mask_op = |how: c_int, s: c_int| unsafe {
        let mut set: libc::sigset_t = std::mem::zeroed();
        libc::sigemptyset(&mut set);
        libc::sigaddset(&mut set, s);
        libc::pthread_sigmask(how, &set, std::ptr::null_mut());
    };
    for (i, op) in case.ops.iter().enumerate() {
        let mut rec = json!({"k": "op", "step": i});
        match op {
            Op::Register { sig, siginfo } => {
                let s = POOL[*sig as usize % 20];
                let tag = i as i32 + 1;
                let r = unsafe {
                    if *siginfo {
                        signal_hook_registry::register_sigaction(s, move |info| {
                            log_tag(if info.si_signo == s { tag } else { -tag });
                        })
                    } else {
                        signal_hook_registry::register(s, move || log_tag(tag))
                    }
                };
                match r {
                    Ok(id) => {
                        rec["ret"] = json!("ok");
                        rec["fresh_id"] = json!(seen.insert(id));
                        ids.push(id);
                        taken.insert(s);
                    }
                    Err(e) => rec["ret"] = json!(format!("err:{:?}", e.raw_os_error())),
                }
            }
            Op::Unregister { k } => {
                if ids.is_empty() {
                    rec["ret"] = json!("none");
                } else {
                    let id = ids[*k as usize % ids.len()];
                    rec["ret"] = json!(signal_hook_registry::unregister(id));
                    rec["which"] = json!(*k as usize % ids.len());
                }
            }
            Op::UnregisterSignal { sig } => {
                #[allow(deprecated)]
                let r = signal_hook_registry::unregister_signal(POOL[*sig as usize % 20]);
                rec["ret"] = json!(r);
            }
            Op::Deliver { sig } => {
                let s = POOL[*sig as usize % 20];
                if taken.contains(&s) && blocked.contains(&s) {
                    let p0 = LOGPOS.load(Ordering::SeqCst);
                    let rc = unsafe { libc::raise(s) };
                    let p1 = LOGPOS.load(Ordering::SeqCst).min(LOGN);
                    rec["ran"] = json!("pending");
                    rec["raise_rc"] = json!(rc);
                    rec["ran_while_blocked"] = json!(p1 - p0);
                } else if taken.contains(&s) {
                    let p0 = LOGPOS.load(Ordering::SeqCst);
                    unsafe { libc::raise(s) };
                    let p1 = LOGPOS.load(Ordering::SeqCst).min(LOGN);
                    let ran: Vec<i32> = (p0..p1).map(|p| LOG[p].load(Ordering::SeqCst)).collect();
                    rec["ran"] = json!(ran);
                } else {
                    rec["ran"] = json!("skipped");
                }
            }
            Op::Block { sig } => {
                let s = POOL[*sig as usize % 20];
                if !job_control(s) {
                    mask_op(libc::SIG_BLOCK, s);
                    blocked.insert(s);
                }
            }
            Op::Unblock { sig } => {
                let s = POOL[*sig as usize % 20];
                if blocked.remove(&s) {
                    let p0 = LOGPOS.load(Ordering::SeqCst);
                    mask_op(libc::SIG_UNBLOCK, s);
                    let p1 = LOGPOS.load(Ordering::SeqCst).min(LOGN);
                    let ran: Vec<i32> = (p0..p1).map(|p| LOG[p].load(Ordering::SeqCst)).collect();
                    rec["ran"] = json!(ran);
                } else {
                    rec["ran"] = json!("not-blocked");
                }
            }
            Op::RegisterRefused { which } => {
                let n = [1000, 65, 0][*which as usize % 3];
                let r = std::panic::catch_unwind(|| unsafe { signal_hook_registry::register(n, || ()) });
                rec["ret"] = json!(match r {
                    Ok(Ok(_)) => "ok",
                    Ok(Err(_)) => "err",
                    Err(_) => "panic",
                });
            }
            Op::Emulate { sig } => {
                let s = POOL[*sig as usize % 20];
                let kind = survivable_default(s);
                if taken.contains(&s) && kind != 0 && !blocked.contains(&s) {
                    let mut helper = -1;
                    if kind == 2 {
                        // someone has to continue us: a helper process that sends one SIGCONT as
                        // soon as it sees this process stopped, then exits
                        let me = unsafe { libc::getpid() };
                        helper = unsafe { libc::fork() };
                        if helper == 0 {
                            for _ in 0..4000 {
                                let st = std::fs::read_to_string(format!("/proc/{}/stat", me)).unwrap_or_default();
                                let state = st.rsplit(')').next().and_then(|r| r.split_whitespace().next()).unwrap_or("").to_string();
                                if state == "T" {
                                    unsafe { libc::kill(me, libc::SIGCONT) };
                                    unsafe { libc::_exit(0) };
                                }
                                unsafe { libc::usleep(500) };
                            }
                            unsafe { libc::_exit(1) };
                        }
                    }
                    let r = signal_hook::low_level::emulate_default_handler(s);
                    rec["ret"] = json!(if r.is_ok() { "ok".to_string() } else { format!("err:{:?}", r.err().and_then(|e| e.raw_os_error())) });
                    if helper > 0 {
                        let mut st = 0;
                        unsafe { libc::waitpid(helper, &mut st, 0) };
                        rec["stopped_and_continued"] = json!(libc::WIFEXITED(st) && libc::WEXITSTATUS(st) == 0);
                    }
                } else {
                    rec["ret"] = json!("skipped");
                }
            }
        }
        // dispositions of every taken-over signal
        let mut bad: Vec<c_int> = Vec::new();
        for s in &taken {
            let mut cur: libc::sigaction = unsafe { std::mem::zeroed() };
            unsafe { libc::sigaction(*s, std::ptr::null(), &mut cur) };
            // exactly these two (plus the C library's own SA_RESTORER): anything inherited from a
            // handler that was there before - one-shot, no-defer, ... - changes how the taken-over
            // signal behaves for the rest of the process
            let want = libc::SA_RESTART | libc::SA_SIGINFO;
            const SA_RESTORER: libc::c_int = 0x0400_0000;
            if cur.sa_sigaction != handler || (cur.sa_flags & !SA_RESTORER) != want {
                bad.push(*s);
            }
        }
        rec["bad_disposition"] = json!(bad);
        emit(fd, &rec);
    }
    // not-taken-over signals of the pool keep their default disposition
    let mut touched: Vec<c_int> = Vec::new();
    for s in POOL.iter() {
        if !taken.contains(s) {
            let mut cur: libc::sigaction = unsafe { std::mem::zeroed() };
            unsafe { libc::sigaction(*s, std::ptr::null(), &mut cur) };
            let is_prior = case.priors.iter().any(|(si, _)| POOL[*si as usize % 20] == *s) && (cur.sa_sigaction == prior1 as usize || cur.sa_sigaction == prior3 as usize);
            if cur.sa_sigaction != libc::SIG_DFL && !(*s == libc::SIGPIPE && cur.sa_sigaction == libc::SIG_IGN) && !is_prior {
                touched.push(*s);
            }
        }
    }
    emit(fd, &json!({"k": "untouched", "changed": touched}));
    // a blocking read interrupted by a handled signal restarts
    if case.restart_probe {
        if let Some(s) = taken.iter().find(|s| !blocked.contains(s)).cloned() {
            let mut p = [0i32; 2];
            unsafe { libc::pipe(p.as_mut_ptr()) };
            RESTART_FD.store(p[1], Ordering::SeqCst);
            let _ = unsafe {
                signal_hook_registry::register(s, || {
                    let b = b"R";
                    libc::write(RESTART_FD.load(Ordering::SeqCst), b.as_ptr() as *const _, 1);
                })
            };
            let main_tid = unsafe { libc::syscall(libc::SYS_gettid) } as i32;
            let pid = unsafe { libc::getpid() };
            let helper = std::thread::spawn(move || {
                // wait until the main thread is inside read(2) on the pipe
                let path = format!("/proc/self/task/{}/syscall", main_tid);
                let want = format!("{} {:#x}", libc::SYS_read, p[0]);
                for _ in 0..200_000 {
                    if let Ok(t) = std::fs::read_to_string(&path) {
                        if t.starts_with(&want) {
                            break;
                        }
                    }
                    std::thread::yield_now();
                }
                unsafe { libc::syscall(libc::SYS_tgkill, pid, main_tid, s) };
            });
            let mut b = [0u8; 1];
            let n = unsafe { libc::read(p[0], b.as_mut_ptr() as *mut _, 1) };
            let errno = std::io::Error::last_os_error().raw_os_error();
            let _ = helper.join();
            emit(fd, &json!({"k": "restart", "n": n, "errno": if n < 0 { errno } else { None }, "sig": s}));
        }
    }
    emit(fd, &json!({"k": "done"}));
}

pub fn run_case(case: &C05Case) -> CaseReport {
    let c2 = case.clone();
    let (recs, end) = fork_stream(30_000, move |fd| child(&c2, fd));
    let mut rep = CaseReport::default();
    rep.hash = hash_of(&format!("{:?}", case));
    rep.sample = Some(json!({"case": case, "records": recs.iter().take(60).collect::<Vec<_>>(), "end": format!("{:?}", end)}));
    match &end {
        End::Timeout => {
            rep.inconclusive = Some("child timed out".into());
            return rep;
        }
        End::Infra(e) => {
            rep.inconclusive = Some(e.clone());
            return rep;
        }
        End::Signaled(s) => {
            rep.viol("C05/died", format!("the process was killed by signal {} (a taken-over signal lost its handler?)", s));
            return rep;
        }
        End::Exited(c) if *c != 0 || !recs.iter().any(|r| r["k"] == "done") => {
            rep.viol("C05/died", format!("the process exited with {} before the history finished", c));
            return rep;
        }
        _ => {}
    }
    // ---- model
    let mut model: BTreeMap<u8, Vec<(usize, i32)>> = BTreeMap::new(); // sig -> [(id index, tag)]
    let mut issued: Vec<(u8, bool)> = Vec::new(); // id index -> (sig, live)
    let mut taken: BTreeSet<u8> = BTreeSet::new();
    let mut stale_unreg = false;
    // signal index -> number of deliveries pending while blocked
    let mut blocked_m: BTreeMap<u8, u32> = BTreeMap::new();
    let mut deliver_after_removal = false;
    let mut removed_any = false;
    for (i, op) in case.ops.iter().enumerate() {
        let r = match recs.iter().find(|r| r["k"] == "op" && r["step"] == i as u64) {
            Some(r) => r,
            None => {
                rep.viol("C05/died", format!("no record for step {}", i));
                return rep;
            }
        };
        match op {
            Op::Register { sig, .. } => {
                if r["ret"] != "ok" {
                    rep.viol(&format!("C05/ret@register"), format!("step {}: register on signal {} failed: {}", i, POOL[*sig as usize % 20], r["ret"]));
                    return rep;
                }
                if r["fresh_id"] != true {
                    rep.viol("C05/id-reuse", format!("step {}: register returned an id that was handed out before", i));
                }
                model.entry(*sig).or_default().push((issued.len(), i as i32 + 1));
                issued.push((*sig, true));
                taken.insert(*sig);
            }
            Op::Unregister { k } => {
                if issued.is_empty() {
                    continue;
                }
                let which = *k as usize % issued.len();
                let (sig, live) = issued[which];
                let want = live;
                if r["ret"] != want {
                    rep.viol("C05/ret@unregister", format!("step {}: unregister of a {} id returned {}", i, if live { "live" } else { "stale" }, r["ret"]));
                }
                if live {
                    issued[which].1 = false;
                    model.get_mut(&sig).unwrap().retain(|x| x.0 != which);
                    removed_any = true;
                } else {
                    stale_unreg = true;
                }
            }
            Op::UnregisterSignal { sig } => {
                let l = model.entry(*sig).or_default();
                let want = !l.is_empty();
                if r["ret"] != want {
                    rep.viol("C05/ret@unregister_signal", format!("step {}: unregister_signal returned {} with {} actions registered", i, r["ret"], l.len()));
                }
                for (idx, _) in l.drain(..) {
                    issued[idx].1 = false;
                    removed_any = true;
                }
            }
            Op::Block { sig } => {
                if !job_control(POOL[*sig as usize % 20]) {
                    blocked_m.entry(*sig).or_insert(0);
                }
            }
            Op::Unblock { sig } => {
                if let Some(n) = blocked_m.remove(sig) {
                    if r["ran"] == "not-blocked" {
                        rep.inconclusive = Some("model/child disagree on the blocked set".into());
                        return rep;
                    }
                    // ordinary signals collapse into one pending instance, real-time ones queue
                    let times = if POOL[*sig as usize % 20] >= 34 { n } else { n.min(1) };
                    let one: Vec<i64> = model.get(sig).map(|l| l.iter().map(|x| x.1 as i64).collect()).unwrap_or_default();
                    let mut want: Vec<i64> = Vec::new();
                    for _ in 0..times {
                        want.extend(one.iter());
                    }
                    let got: Vec<i64> = r["ran"].as_array().map(|a| a.iter().filter_map(|x| x.as_i64()).collect()).unwrap_or_default();
                    if n > 0 {
                        rep.class("pending-delivery-at-unblock");
                    }
                    if got != want {
                        rep.viol("C05/log-mismatch", format!("step {}: signal {} was unblocked with {} delivery(ies) pending: ran actions {:?}, the model (actions registered at the instant of unblocking{}) expects {:?}", i, POOL[*sig as usize % 20], n, got, if times > 1 { ", once per queued instance" } else { "" }, want));
                    }
                }
            }
            Op::Deliver { sig } if blocked_m.contains_key(sig) => {
                if !taken.contains(sig) {
                    continue;
                }
                if r["raise_rc"].as_i64() != Some(0) {
                    rep.inconclusive = Some("raise failed (queued-signal quota?)".into());
                    return rep;
                }
                if r["ran_while_blocked"].as_u64().unwrap_or(0) != 0 {
                    rep.viol("C05/log-mismatch", format!("step {}: actions ran for a blocked signal", i));
                }
                *blocked_m.get_mut(sig).unwrap() += 1;
            }
            Op::Deliver { sig } => {
                if !taken.contains(sig) {
                    continue;
                }
                let want: Vec<i64> = model.get(sig).map(|l| l.iter().map(|x| x.1 as i64).collect()).unwrap_or_default();
                let got: Vec<i64> = r["ran"].as_array().map(|a| a.iter().filter_map(|x| x.as_i64()).collect()).unwrap_or_default();
                if got != want {
                    rep.viol("C05/log-mismatch", format!("step {}: delivery of signal {} ran actions {:?}, the model expects {:?}", i, POOL[*sig as usize % 20], got, want));
                }
                if removed_any {
                    deliver_after_removal = true;
                }
            }
            Op::RegisterRefused { .. } => {
                rep.class("refused-registration-in-history");
                if r["ret"] != "err" {
                    rep.viol("C05/ret@register", format!("step {}: a registration the OS refuses returned {}", i, r["ret"]));
                }
            }
            Op::Emulate { sig } => {
                if r["ret"] != "skipped" {
                    rep.class("default-emulated-on-taken-over-signal");
                    if r["ret"] != "ok" {
                        rep.viol("C05/emulate", format!("step {}: emulate_default_handler({}) on a taken-over signal returned {}", i, POOL[*sig as usize % 20], r["ret"]));
                    }
                    if r.get("stopped_and_continued").is_some() {
                        rep.class("stopped-and-continued");
                    }
                }
            }
        }
        if !r["bad_disposition"].as_array().map_or(true, |a| a.is_empty()) {
            rep.viol("C05/disposition", format!("step {}: taken-over signal(s) {} no longer have the library's handler with SA_RESTART|SA_SIGINFO", i, r["bad_disposition"]));
        }
    }
    if let Some(u) = recs.iter().find(|r| r["k"] == "untouched") {
        if !u["changed"].as_array().map_or(true, |a| a.is_empty()) {
            rep.viol("C05/disposition", format!("signals never registered changed disposition: {}", u["changed"]));
        }
    }
    if let Some(r) = recs.iter().find(|r| r["k"] == "restart") {
        rep.class("restart-probe");
        if r["n"].as_i64() != Some(1) {
            rep.viol("C05/no-restart", format!("a blocking read interrupted by handled signal {} did not restart: n={} errno={}", r["sig"], r["n"], r["errno"]));
        }
    }
    rep.nontrivial = taken.len() >= 2 && stale_unreg && deliver_after_removal;
    if taken.len() >= 2 {
        rep.class(">=2-signals");
    }
    if stale_unreg {
        rep.class("stale-unregister");
    }
    if !case.priors.is_empty() {
        rep.class("pre-existing-handlers-with-flags");
    }
    if deliver_after_removal {
        rep.class("deliver-after-removal");
    }
    rep
}


/// Long-run soak: one process, `n` registry operations on three signals against an in-child
/// model. Short random histories never reach the states that only exist after tens of thousands
/// of operations (id magnitude beyond 16 bits, many generations of the snapshot lock, a signal
/// with hundreds of live actions, a table that has grown and shrunk many times).
#[derive(Clone, Debug, Serialize, Deserialize)]
pub struct SoakCase {
    pub n: u32,
    /// multiplier of the deterministic operation stream
    pub stream: u32,
    /// upper bound of live actions per signal in the churn phase
    pub live_max: u16,
    /// size of the "many live actions on one signal" phase
    pub wide: u16,
}

fn soak_child(case: &SoakCase, fd: i32) {
    crate::vsched::install();
    ignore_sigpipe();
    let sigs = [libc::SIGUSR1, libc::SIGUSR2, 40];
    let mut live: Vec<Vec<(SigId, i32)>> = vec![Vec::new(); 3];
    let mut dead: Vec<SigId> = Vec::new();
    let mut seen: HashSet<SigId> = HashSet::new();
    let mut x: u64 = 0x9E37_79B9_7F4A_7C15u64.wrapping_mul(case.stream as u64 + 1);
    let mut next = move || {
        // splitmix64: the operation stream is a pure function of the case value
        x = x.wrapping_add(0x9E37_79B9_7F4A_7C15);
        let mut z = x;
        z = (z ^ (z >> 30)).wrapping_mul(0xBF58_476D_1CE4_E5B9);
        z = (z ^ (z >> 27)).wrapping_mul(0x94D0_49BB_1331_11EB);
        z ^ (z >> 31)
    };
    let mut tag: i32 = 0;
    let mut bad: Option<String> = None;
    let mut regs = 0u64;
    let mut deliveries = 0u64;
    let check_delivery = |si: usize, live: &Vec<Vec<(SigId, i32)>>| -> Option<String> {
        let p0 = LOGPOS.load(Ordering::SeqCst);
        if p0 + live[si].len() + 8 >= LOGN {
            LOGPOS.store(0, Ordering::SeqCst);
        }
        let p0 = LOGPOS.load(Ordering::SeqCst);
        let rc = unsafe { libc::raise(sigs[si]) };
        let p1 = LOGPOS.load(Ordering::SeqCst).min(LOGN);
        let ran: Vec<i32> = (p0..p1).map(|p| LOG[p].load(Ordering::SeqCst)).collect();
        let want: Vec<i32> = live[si].iter().map(|x| x.1).collect();
        if rc != 0 {
            // real-time signals are queued; with the per-user quota of queued signals exhausted by
            // other processes the kernel refuses them (EAGAIN): an environment problem, no verdict
            return Some(format!("ENV|raise({}) failed: {}", sigs[si], std::io::Error::last_os_error()));
        }
        if ran != want {
            let firstdiff = ran.iter().zip(&want).position(|(a, b)| a != b).unwrap_or(ran.len().min(want.len()));
            Some(format!("a delivery of signal {} ran {} actions, the model has {} (first difference at position {}: ran {:?}, model {:?})", sigs[si], ran.len(), want.len(), firstdiff, ran.get(firstdiff), want.get(firstdiff)))
        } else {
            None
        }
    };
    let mut i = 0u32;
    while i < case.n && bad.is_none() {
        i += 1;
        let r = next();
        let si = (r % 3) as usize;
        let choice = (r >> 8) % 16;
        let s = sigs[si];
        if choice < 7 && live[si].len() < case.live_max as usize || live[si].is_empty() && choice < 12 {
            tag = if tag >= 2_000_000_000 { 1 } else { tag + 1 };
            let t = tag;
            let id = unsafe {
                if choice & 1 == 0 {
                    signal_hook_registry::register(s, move || log_tag(t))
                } else {
                    signal_hook_registry::register_sigaction(s, move |info| log_tag(if info.si_signo == s { t } else { -t }))
                }
            };
            match id {
                Ok(id) => {
                    regs += 1;
                    if !seen.insert(id) {
                        bad = Some(format!("C05/id-reuse|operation {}: registration number {} returned an id handed out before", i, regs));
                    }
                    live[si].push((id, t));
                }
                Err(e) => bad = Some(format!("C05/ret@register|operation {}: register failed: {}", i, e)),
            }
        } else if choice < 12 {
            if !live[si].is_empty() {
                let k = ((r >> 16) as usize) % live[si].len();
                let (id, _) = live[si].remove(k);
                if !signal_hook_registry::unregister(id) {
                    bad = Some(format!("C05/ret@unregister|operation {}: unregister of a live id (position {} of {}) returned false after {} registrations", i, k, live[si].len() + 1, regs));
                }
                if dead.len() < 64 {
                    dead.push(id);
                } else {
                    let d = ((r >> 24) as usize) % 64;
                    dead[d] = id;
                }
            }
        } else if choice == 12 {
            if !dead.is_empty() {
                let d = ((r >> 16) as usize) % dead.len();
                if signal_hook_registry::unregister(dead[d]) {
                    bad = Some(format!("C05/ret@unregister|operation {}: unregister of a stale id returned true after {} registrations", i, regs));
                }
            }
        } else if choice == 13 && (r >> 40) % 64 == 0 {
            #[allow(deprecated)]
            let ret = signal_hook_registry::unregister_signal(s);
            if ret != !live[si].is_empty() {
                bad = Some(format!("C05/ret@unregister_signal|operation {}: returned {} with {} live actions", i, ret, live[si].len()));
            }
            for (id, _) in live[si].drain(..) {
                if dead.len() < 64 {
                    dead.push(id);
                }
            }
        } else if (r >> 40) % 8 == 0 || i == case.n {
            deliveries += 1;
            if let Some(m) = check_delivery(si, &live) {
                bad = Some(if m.starts_with("ENV|") { m } else { format!("C05/log-mismatch|operation {} (after {} registrations): {}", i, regs, m) });
            }
        }
    }
    // wide phase: one signal with `wide` live actions, removed from the middle outwards
    if bad.is_none() && case.wide > 0 {
        #[allow(deprecated)]
        signal_hook_registry::unregister_signal(sigs[0]);
        live[0].clear();
        for _ in 0..case.wide {
            tag += 1;
            let t = tag;
            match unsafe { signal_hook_registry::register(sigs[0], move || log_tag(t)) } {
                Ok(id) => {
                    if !seen.insert(id) {
                        bad = Some("C05/id-reuse|wide phase: id handed out before".into());
                    }
                    live[0].push((id, t));
                }
                Err(e) => bad = Some(format!("C05/ret@register|wide phase: {}", e)),
            }
        }
        let mut round = 0;
        while bad.is_none() && !live[0].is_empty() {
            deliveries += 1;
            if let Some(m) = check_delivery(0, &live) {
                bad = Some(if m.starts_with("ENV|") { m } else { format!("C05/log-mismatch|wide phase with {} live actions: {}", live[0].len(), m) });
                break;
            }
            round += 1;
            let take = (live[0].len() / 3).max(1);
            for _ in 0..take {
                let k = (next() as usize) % live[0].len();
                let (id, _) = live[0].remove(k);
                if !signal_hook_registry::unregister(id) {
                    bad = Some(format!("C05/ret@unregister|wide phase round {}: unregister of a live id returned false", round));
                }
            }
        }
    }
    // dispositions at the end
    let handler = signal_hook_registry::verif::handler_addr();
    for s in sigs.iter() {
        let mut cur: libc::sigaction = unsafe { std::mem::zeroed() };
        unsafe { libc::sigaction(*s, std::ptr::null(), &mut cur) };
        const SA_RESTORER: libc::c_int = 0x0400_0000;
        if bad.is_none() && (cur.sa_sigaction != handler || (cur.sa_flags & !SA_RESTORER) != (libc::SA_RESTART | libc::SA_SIGINFO)) {
            bad = Some(format!("C05/disposition|after the soak signal {} no longer has the library's handler with SA_RESTART|SA_SIGINFO", s));
        }
    }
    emit(fd, &json!({"k": "soak", "bad": bad, "ops": i, "registrations": regs, "deliveries": deliveries}));
    emit(fd, &json!({"k": "done"}));
}

pub fn run_soak(case: &SoakCase) -> CaseReport {
    let c2 = case.clone();
    let (recs, end) = fork_stream(120_000, move |fd| soak_child(&c2, fd));
    let mut rep = CaseReport::default();
    rep.hash = hash_of(&format!("{:?}", case));
    rep.sample = Some(json!({"case": case, "records": recs, "end": format!("{:?}", end)}));
    rep.class("long-run-soak");
    rep.nontrivial = true;
    match &end {
        End::Timeout => {
            rep.inconclusive = Some("soak child timed out".into());
            return rep;
        }
        End::Infra(e) => {
            rep.inconclusive = Some(e.clone());
            return rep;
        }
        End::Signaled(s) => {
            rep.viol("C05/died", format!("long run: the process was killed by signal {} (last record {:?})", s, recs.last()));
            return rep;
        }
        End::Exited(c) if *c != 0 || !recs.iter().any(|r| r["k"] == "done") => {
            rep.viol("C05/died", format!("long run: the process exited with {} before the soak finished (a panic inside the registry?)", c));
            return rep;
        }
        _ => {}
    }
    if let Some(r) = recs.iter().find(|r| r["k"] == "soak") {
        rep.count("soak_operations", r["ops"].as_u64().unwrap_or(0));
        rep.count("soak_registrations", r["registrations"].as_u64().unwrap_or(0));
        if let Some(b) = r["bad"].as_str() {
            let (key, msg) = b.split_once('|').unwrap_or(("C05/log-mismatch", b));
            if key == "ENV" {
                rep.inconclusive = Some(msg.to_string());
            } else {
                rep.viol(key, format!("long run: {}", msg));
            }
        }
    }
    rep
}

/// worker 0, every run: two soaks (different operation streams)
fn extra(def: &PropDef, args: &WorkerArgs, report: &mut WorkerReport) {
    let known = Known::load();
    let f = if args.tier == Tier::Thorough { 12 } else { 1 };
    // the first stream passes 65 536 registrations also in the quick tier
    for (n, stream, live_max, wide) in [(200_000 * f, args.seed as u32 % 1000, 6u16, 700u16), (60_000 * f, args.seed as u32 % 1000 + 1000, 40, 0)] {
        let case = SoakCase { n, stream, live_max, wide };
        let rep = run_soak(&case);
        if let Some(v) = report.absorb(def, &rep, &known) {
            report.violation = Some((v.key, v.msg, serde_json::to_value(&C05Any::Soak(case)).unwrap()));
            return;
        }
    }
}

/// Sequential histories with real signals, plus the concurrent registry programs of C01/C02
/// judged by the same model (return values and delivered action lists).
#[derive(Clone, Debug, Serialize, Deserialize)]
pub enum C05Any {
    Seq(C05Case),
    Conc(crate::reg::RegCase),
    Soak(SoakCase),
}

fn run_any(c: &C05Any) -> CaseReport {
    match c {
        C05Any::Seq(c) => run_case(c),
        C05Any::Conc(c) => crate::reg::run_case(c),
        C05Any::Soak(c) => run_soak(c),
    }
}

fn worker(def: &PropDef, args: &WorkerArgs) -> WorkerReport {
    let maxlen = if args.tier == Tier::Thorough { 200 } else { 40 };
    let strat = prop_oneof![
        3 => strategy(maxlen).prop_map(C05Any::Seq),
        2 => crate::reg::strategy(crate::reg::Focus::C01).prop_map(C05Any::Conc),
    ]
    .boxed();
    generic_worker(def, args, strat, &run_any)
}

fn replay(v: &Value) -> CaseReport {
    if let Ok(c) = serde_json::from_value::<C05Any>(v.clone()) {
        return run_any(&c);
    }
    let case: C05Case = serde_json::from_value(v.clone()).expect("case");
    run_case(&case)
}

pub static C05: PropDef = PropDef {
    id: "C05",
    prefixes: &["C05/"],
    rule: "forkprobe: histories (quick <=40, thorough <=200 ops) over {register, register_sigaction, unregister(live or stale id), unregister_signal, deliver (real raise), block / unblock of a signal with deliveries pending in between} on 1-20 catchable signals including realtime numbers; reference model = per-signal ordered list of (id, tag) + set of taken-over signals; after every step: return value equals the model's, ids never repeat, a delivery runs exactly the model's list in order, every taken-over signal keeps the library handler with SA_RESTART|SA_SIGINFO, untouched signals keep their disposition; optional directed probe: a blocking read interrupted by a handled signal restarts. Worker 0 adds two long-run soaks per run (200 000 + 60 000 operations, 12x in the thorough tier, in one process on three signals incl. a real-time one against an in-process model: ids beyond 16 bits, churn with <=6 and <=40 live actions, then 700 live actions on one signal removed from the middle, deliveries compared with the model throughout). Non-trivial = >=2 signals, >=1 stale unregister and a delivery after a removal; distinct = the case value",
    assumptions: &["signals are raised only once taken over by the library"],
    cases: (1500, 40_000),
    shrink_iters: 300,
    worker,
    replay,
    extra: Some(extra),
};
