//! C15 — flags and conditional shutdown do exactly what the flag state dictates (forkprobe).

use crate::driver::*;
use crate::forkrun::*;
use libc::c_int;
use proptest::collection::vec;
use proptest::prelude::*;
use serde::{Deserialize, Serialize};
use serde_json::{json, Value};
use std::sync::atomic::{AtomicBool, AtomicI32, AtomicUsize, Ordering};
use std::sync::Arc;

pub const SIGSET: [c_int; 7] = [libc::SIGTERM, libc::SIGQUIT, libc::SIGINT, libc::SIGHUP, libc::SIGUSR1, libc::SIGUSR2, libc::SIGALRM];

#[derive(Clone, Debug, Serialize, Deserialize, PartialEq)]
pub enum Op {
    RegFlag { sig: u8, flag: u8 },
    RegUsize { sig: u8, flag: u8, value: usize },
    RegShutdown { sig: u8, status: i32, cond: u8 },
    RegSpy { sig: u8 },
    /// an application action that - the first time it runs in the whole history - raises the very
    /// signal it is handling once more. The signal is blocked while its handler runs, so the second
    /// delivery starts only after the first one is over.
    RegReraise { sig: u8 },
    /// unregister the k-th action registered so far (if still registered)
    Unreg { k: u8 },
    Store { flag: u8, v: bool },
    StoreUsize { flag: u8, v: usize },
    Deliver {
        sig: u8,
        /// deliver to a helper thread instead of the main thread (when the case has helpers)
        #[serde(default)]
        to_helper: bool,
    },
}

#[derive(Clone, Debug, Serialize, Deserialize)]
pub struct C15Case {
    pub ops: Vec<Op>,
    /// idle helper threads alive during the history (0-2) plus a watcher
    #[serde(default)]
    pub helpers: u8,
    /// third-party no-op handlers installed with SA_NODEFER on every signal of the set before the
    /// history starts (what they allowed for themselves must not leak into the library's handler)
    #[serde(default)]
    pub nodefer_prior: bool,
    /// every signal of the set is ignored (inherited SIG_IGN, as under nohup or for SIGPIPE in any
    /// Rust program) before the history starts: a registration must still take the signal over
    #[serde(default)]
    pub ignored_prior: bool,
}

pub fn strategy() -> BoxedStrategy<C15Case> {
    let op = prop_oneof![
        3 => (0u8..7, 0u8..3).prop_map(|(sig, flag)| Op::RegFlag { sig, flag }),
        2 => (0u8..7, 0u8..2, prop_oneof![Just(0usize), Just(1), Just(usize::MAX), any::<usize>()]).prop_map(|(sig, flag, value)| Op::RegUsize { sig, flag, value }),
        3 => (0u8..7, 0i32..256, 0u8..3).prop_map(|(sig, status, cond)| Op::RegShutdown { sig, status, cond }),
        2 => (0u8..7).prop_map(|sig| Op::RegSpy { sig }),
        1 => (0u8..7).prop_map(|sig| Op::RegReraise { sig }),
        3 => (0u8..3, any::<bool>()).prop_map(|(flag, v)| Op::Store { flag, v }),
        2 => (0u8..12).prop_map(|k| Op::Unreg { k }),
        1 => (0u8..2, any::<usize>()).prop_map(|(flag, v)| Op::StoreUsize { flag, v }),
        6 => (0u8..7, prop::bool::weighted(0.35)).prop_map(|(sig, to_helper)| Op::Deliver { sig, to_helper }),
    ];
    // bias towards few signals so that actions pile up on one signal
    (vec(op, 1..21), 1u8..4, prop_oneof![2 => Just(0u8), 1 => Just(1u8), 1 => Just(2u8)], prop_oneof![3 => Just(0u8), 2 => Just(1u8), 1 => Just(2u8)])
        .prop_map(|(mut ops, nsig, helpers, prior)| {
            let (nodefer_prior, ignored_prior) = (prior == 1, prior == 2);
            for o in ops.iter_mut() {
                match o {
                    Op::RegFlag { sig, .. } | Op::RegUsize { sig, .. } | Op::RegShutdown { sig, .. } | Op::RegSpy { sig } | Op::RegReraise { sig } | Op::Deliver { sig, .. } => *sig %= nsig,
                    _ => {}
                }
            }
            C15Case { ops, helpers, nodefer_prior, ignored_prior }
        })
        .boxed()
}

static OUT_FD: AtomicI32 = AtomicI32::new(-1);
static RERAISED: std::sync::atomic::AtomicBool = std::sync::atomic::AtomicBool::new(false);
extern "C" fn nodefer_noop(_: libc::c_int) {}
static HELPER_TICKS: [AtomicUsize; 4] = [const { AtomicUsize::new(0) }; 4];

extern "C" fn at_exit_marker() {
    let fd = OUT_FD.load(Ordering::SeqCst);
    if fd >= 0 {
        let m = b"{\"k\":\"atexit\"}\n";
        unsafe { libc::write(fd, m.as_ptr() as *const _, m.len()) };
    }
}

fn child(case: &C15Case, fd: i32) {
    crate::vsched::install();
    OUT_FD.store(fd, Ordering::SeqCst);
    unsafe { libc::atexit(at_exit_marker) };
    RERAISED.store(false, Ordering::SeqCst);
    if case.ignored_prior && !case.nodefer_prior {
        for s in SIGSET.iter() {
            unsafe {
                let mut sa: libc::sigaction = std::mem::zeroed();
                sa.sa_sigaction = libc::SIG_IGN;
                libc::sigaction(*s, &sa, std::ptr::null_mut());
            }
        }
    }
    if case.nodefer_prior {
        for s in SIGSET.iter() {
            unsafe {
                let mut sa: libc::sigaction = std::mem::zeroed();
                sa.sa_sigaction = nodefer_noop as usize;
                sa.sa_flags = libc::SA_NODEFER | libc::SA_ONSTACK;
                libc::sigaction(*s, &sa, std::ptr::null_mut());
            }
        }
    }
    // helper threads: alive for the whole history, each waiting in sigsuspend; a watcher notices
    // when a single thread (rather than the process) has been terminated
    let main_tid = unsafe { libc::syscall(libc::SYS_gettid) } as i32;
    let mut helper_ids: Vec<(libc::pthread_t, i32, usize)> = Vec::new();
    if case.helpers > 0 {
        let (tx, rx) = std::sync::mpsc::channel::<(libc::pthread_t, i32, usize)>();
        for hi in 0..case.helpers as usize {
            let tx = tx.clone();
            std::thread::spawn(move || {
                // The helper keeps the history's signals blocked and waits in sigsuspend, which
                // atomically unblocks them: a signal sent at any moment stays pending until then,
                // its handler runs inside sigsuspend, and the return from it is the acknowledgement.
                unsafe {
                    let mut set: libc::sigset_t = std::mem::zeroed();
                    libc::sigemptyset(&mut set);
                    for s in SIGSET.iter() {
                        libc::sigaddset(&mut set, *s);
                    }
                    libc::pthread_sigmask(libc::SIG_BLOCK, &set, std::ptr::null_mut());
                    // only now may the main thread learn about this helper and signal it
                    let me = (libc::pthread_self(), libc::syscall(libc::SYS_gettid) as i32, hi);
                    tx.send(me).unwrap();
                    let mut empty: libc::sigset_t = std::mem::zeroed();
                    libc::sigemptyset(&mut empty);
                    loop {
                        libc::sigsuspend(&empty);
                        HELPER_TICKS[hi % 4].fetch_add(1, Ordering::SeqCst);
                    }
                }
            });
        }
        for _ in 0..case.helpers {
            helper_ids.push(rx.recv().unwrap());
        }
        std::thread::spawn(move || {
            unsafe {
                let mut all: libc::sigset_t = std::mem::zeroed();
                libc::sigfillset(&mut all);
                libc::pthread_sigmask(libc::SIG_BLOCK, &all, std::ptr::null_mut());
            }
            let pid = unsafe { libc::getpid() };
            loop {
                // signal 0: pure existence test of the main thread (ESRCH once it is gone)
                let r = unsafe { libc::syscall(libc::SYS_tgkill, pid, main_tid, 0) };
                if r != 0 && std::io::Error::last_os_error().raw_os_error() == Some(libc::ESRCH) {
                    let m = b"{\"k\":\"main-thread-gone\"}\n";
                    unsafe {
                        libc::write(OUT_FD.load(Ordering::SeqCst), m.as_ptr() as *const _, m.len());
                        libc::_exit(78);
                    }
                }
                std::thread::sleep(std::time::Duration::from_micros(500));
            }
        });
    }
    let bools: Vec<Arc<AtomicBool>> = (0..3).map(|_| Arc::new(AtomicBool::new(false))).collect();
    let us: Vec<Arc<AtomicUsize>> = (0..2).map(|_| Arc::new(AtomicUsize::new(0))).collect();
    let mut spy_id = 0;
    let mut ids: Vec<signal_hook::SigId> = Vec::new();
    for (i, op) in case.ops.iter().enumerate() {
        let mut res = "ok";
        match op {
            Op::RegFlag { sig, flag } => {
                match signal_hook::flag::register(SIGSET[*sig as usize % 7], bools[*flag as usize % 3].clone()) {
                    Ok(id) => ids.push(id),
                    Err(_) => res = "err",
                }
            }
            Op::RegUsize { sig, flag, value } => {
                match signal_hook::flag::register_usize(SIGSET[*sig as usize % 7], us[*flag as usize % 2].clone(), *value) {
                    Ok(id) => ids.push(id),
                    Err(_) => res = "err",
                }
            }
            Op::RegShutdown { sig, status, cond } => {
                match signal_hook::flag::register_conditional_shutdown(SIGSET[*sig as usize % 7], *status, bools[*cond as usize % 3].clone()) {
                    Ok(id) => ids.push(id),
                    Err(_) => res = "err",
                }
            }
            Op::RegSpy { sig } => {
                let id = spy_id;
                spy_id += 1;
                let r = unsafe {
                    signal_hook_registry::register(SIGSET[*sig as usize % 7], move || {
                        // async-signal-safe: one write of a prepared line
                        let mut buf = *b"{\"k\":\"spy\",\"id\":\"000\"}\n";
                        buf[17] = b'0' + ((id / 100) % 10) as u8;
                        buf[18] = b'0' + ((id / 10) % 10) as u8;
                        buf[19] = b'0' + (id % 10) as u8;
                        libc::write(OUT_FD.load(Ordering::SeqCst), buf.as_ptr() as *const _, buf.len());
                    })
                };
                match r {
                    Ok(id) => ids.push(id),
                    Err(_) => res = "err",
                }
            }
            Op::RegReraise { sig } => {
                let s = SIGSET[*sig as usize % 7];
                let r = unsafe {
                    signal_hook_registry::register(s, move || {
                        if !RERAISED.swap(true, Ordering::SeqCst) {
                            libc::raise(s);
                        }
                    })
                };
                match r {
                    Ok(id) => ids.push(id),
                    Err(_) => res = "err",
                }
            }
            Op::Unreg { k } => {
                if !ids.is_empty() {
                    signal_hook::low_level::unregister(ids[*k as usize % ids.len()]);
                }
            }
            Op::Store { flag, v } => bools[*flag as usize % 3].store(*v, Ordering::SeqCst),
            Op::StoreUsize { flag, v } => us[*flag as usize % 2].store(*v, Ordering::SeqCst),
            Op::Deliver { sig, to_helper } => {
                emit(fd, &json!({"k": "delivering", "step": i}));
                if *to_helper && !helper_ids.is_empty() {
                    let (pt, tid, hi) = helper_ids[0];
                    let before = HELPER_TICKS[hi % 4].load(Ordering::SeqCst);
                    let reraised_before = RERAISED.load(Ordering::SeqCst);
                    let kr = unsafe { libc::pthread_kill(pt, SIGSET[*sig as usize % 7]) };
                    if kr != 0 {
                        emit(fd, &json!({"k": "infra", "what": format!("pthread_kill failed: {}", kr)}));
                    }
                    let start = std::time::Instant::now();
                    let pid = unsafe { libc::getpid() };
                    loop {
                        // (a re-raise from inside this delivery is taken by the helper at its
                        // next sigsuspend: one more tick to wait for)
                        let need = if !reraised_before && RERAISED.load(Ordering::SeqCst) { 2 } else { 1 };
                        if HELPER_TICKS[hi % 4].load(Ordering::SeqCst) >= before + need {
                            break;
                        }
                        let r = unsafe { libc::syscall(libc::SYS_tgkill, pid, tid, 0) };
                        if r != 0 && std::io::Error::last_os_error().raw_os_error() == Some(libc::ESRCH) {
                            emit(fd, &json!({"k": "thread-gone", "step": i}));
                            helper_ids.remove(0);
                            break;
                        }
                        if start.elapsed().as_millis() > 3000 {
                            emit(fd, &json!({"k": "infra", "what": "helper did not wake"}));
                            break;
                        }
                        std::thread::sleep(std::time::Duration::from_micros(200));
                    }
                } else {
                    unsafe { libc::raise(SIGSET[*sig as usize % 7]) };
                }
            }
        }
        let b: Vec<bool> = bools.iter().map(|x| x.load(Ordering::SeqCst)).collect();
        // usize values travel as strings (JSON numbers are not exact above 2^53)
        let u: Vec<String> = us.iter().map(|x| x.load(Ordering::SeqCst).to_string()).collect();
        emit(fd, &json!({"k": "state", "step": i, "res": res, "bools": b, "us": u}));
    }
    emit(fd, &json!({"k": "done"}));
}

#[derive(Clone, Debug)]
enum Act {
    Flag(usize),
    Usize(usize, usize),
    Shutdown(i32, usize),
    Spy(usize),
    Reraise,
}

pub fn run_case(case: &C15Case) -> CaseReport {
    let c2 = case.clone();
    let (recs, end) = fork_stream(20_000, move |fd| child(&c2, fd));
    let mut rep = CaseReport::default();
    rep.hash = hash_of(&format!("{:?}", case));
    rep.sample = Some(json!({"case": case, "records": recs, "end": format!("{:?}", end)}));
    match &end {
        End::Timeout => {
            rep.inconclusive = Some("child timed out".into());
            return rep;
        }
        End::Infra(e) => {
            rep.inconclusive = Some(e.clone());
            return rep;
        }
        _ => {}
    }
    // ---- model
    let mut actions: Vec<Vec<(usize, Act)>> = vec![vec![]; 7];
    let mut taken_model = [false; 7];
    let mut nreg = 0usize;
    let mut bools = [false; 3];
    let mut us = [0usize; 2];
    let mut spies = 0usize;
    let mut expected_spies: Vec<usize> = Vec::new();
    let mut death: Option<(usize, i32)> = None;
    let mut armed_between = false;
    let mut shutdown_registered = false;
    let mut deliveries_with_shutdown = 0;
    let mut survived_after_disarm = false;
    let mut last_store_disarmed = false;
    let mut states: Vec<([bool; 3], [usize; 2])> = Vec::new();
    let mut removed_any = false;
    let mut reraised = false;
    'outer: for (i, op) in case.ops.iter().enumerate() {
        match op {
            Op::RegFlag { sig, flag } => {
                taken_model[*sig as usize % 7] = true;
                actions[*sig as usize % 7].push((nreg, Act::Flag(*flag as usize % 3)));
                nreg += 1;
            }
            Op::RegUsize { sig, flag, value } => {
                taken_model[*sig as usize % 7] = true;
                actions[*sig as usize % 7].push((nreg, Act::Usize(*flag as usize % 2, *value)));
                nreg += 1;
            }
            Op::RegShutdown { sig, status, cond } => {
                shutdown_registered = true;
                taken_model[*sig as usize % 7] = true;
                actions[*sig as usize % 7].push((nreg, Act::Shutdown(*status, *cond as usize % 3)));
                nreg += 1;
            }
            Op::RegSpy { sig } => {
                taken_model[*sig as usize % 7] = true;
                actions[*sig as usize % 7].push((nreg, Act::Spy(spies)));
                nreg += 1;
                spies += 1;
            }
            Op::RegReraise { sig } => {
                taken_model[*sig as usize % 7] = true;
                actions[*sig as usize % 7].push((nreg, Act::Reraise));
                nreg += 1;
            }
            Op::Unreg { k } => {
                if nreg > 0 {
                    let which = *k as usize % nreg;
                    for l in actions.iter_mut() {
                        l.retain(|(i, _)| *i != which);
                    }
                    removed_any = true;
                }
            }
            Op::Store { flag, v } => {
                bools[*flag as usize % 3] = *v;
                if shutdown_registered {
                    armed_between = true;
                    last_store_disarmed = !*v;
                }
            }
            Op::StoreUsize { flag, v } => us[*flag as usize % 2] = *v,
            Op::Deliver { sig, .. } => {
                let list: Vec<Act> = actions[*sig as usize % 7].iter().map(|x| x.1.clone()).collect();
                if list.is_empty() && !taken_model[*sig as usize % 7] && (case.ignored_prior || case.nodefer_prior) {
                    // nobody registered anything: the third party's disposition (ignore / a no-op
                    // handler) is still in place and the delivery changes nothing
                    states.push((bools, us));
                    continue;
                }
                if list.is_empty() && !taken_model[*sig as usize % 7] {
                    // never taken over: the harness would die of the default action - the child
                    // skips nothing, so do not generate: treat as death by the signal itself
                    death = Some((i, -(SIGSET[*sig as usize % 7])));
                    break 'outer;
                }
                if list.iter().any(|a| matches!(a, Act::Shutdown(..))) {
                    deliveries_with_shutdown += 1;
                }
                // a re-raise from inside the delivery stays pending until the delivery is over and
                // is then delivered as one more, complete delivery of the same signal
                let mut rounds = 1;
                while rounds > 0 {
                    rounds -= 1;
                    for a in &list {
                        match a {
                            Act::Flag(f) => bools[*f] = true,
                            Act::Usize(f, v) => us[*f] = *v,
                            Act::Spy(id) => expected_spies.push(*id),
                            Act::Reraise => {
                                if !reraised {
                                    reraised = true;
                                    rounds += 1;
                                }
                            }
                            Act::Shutdown(status, c) => {
                                if bools[*c] {
                                    death = Some((i, *status));
                                    break 'outer;
                                }
                            }
                        }
                    }
                }
                if last_store_disarmed && list.iter().any(|a| matches!(a, Act::Shutdown(..))) {
                    survived_after_disarm = true;
                }
            }
        }
        states.push((bools, us));
    }
    rep.nontrivial = shutdown_registered && (armed_between || deliveries_with_shutdown >= 2 || survived_after_disarm);
    if death.map_or(false, |d| d.1 >= 0) {
        rep.class("dies-by-shutdown");
    } else if death.is_some() {
        rep.class("unhandled-signal");
    } else {
        rep.class("survives");
    }
    if deliveries_with_shutdown >= 2 {
        rep.class("shutdown-delivered>=2");
    }
    if removed_any {
        rep.class("unregister-between");
    }
    // ---- compare
    if recs.iter().any(|r| r["k"] == "infra") {
        rep.inconclusive = Some("helper thread did not wake".into());
        return rep;
    }
    if recs.iter().any(|r| r["k"] == "main-thread-gone" || r["k"] == "thread-gone") {
        rep.viol("C15/thread-exit-only", "an armed conditional shutdown ended only the thread that handled the signal; the process lived on".into());
    }
    if case.helpers > 0 {
        rep.class("multi-threaded");
    }
    if recs.iter().any(|r| r["k"] == "atexit") {
        rep.viol("C15/atexit-ran", "exit-time hooks ran: the shutdown did not terminate immediately".into());
    }
    let got_spies: Vec<usize> = recs.iter().filter(|r| r["k"] == "spy").filter_map(|r| r["id"].as_str().and_then(|x| x.parse::<usize>().ok())).collect();
    if got_spies != expected_spies {
        rep.viol("C15/action-order", format!("spy actions fired {:?}, the model expects {:?} (an action after a firing shutdown ran, or one before it did not)", got_spies, expected_spies));
    }
    for (i, (b, u)) in states.iter().enumerate() {
        match recs.iter().find(|r| r["k"] == "state" && r["step"] == i as u64) {
            Some(r) => {
                if r["res"] != "ok" {
                    rep.inconclusive = Some(format!("registration failed at step {}", i));
                    return rep;
                }
                let gb: Vec<bool> = r["bools"].as_array().map(|a| a.iter().map(|x| x.as_bool().unwrap_or(false)).collect()).unwrap_or_default();
                let gu: Vec<String> = r["us"].as_array().map(|a| a.iter().map(|x| x.as_str().unwrap_or("").to_string()).collect()).unwrap_or_default();
                let wu: Vec<String> = u.iter().map(|x| x.to_string()).collect();
                if gb != b.to_vec() || gu != wu {
                    rep.viol("C15/flag-value", format!("after step {} ({:?}) flags are {:?}/{:?}, the model expects {:?}/{:?}", i, case.ops[i], gb, gu, b, wu));
                    break;
                }
            }
            None => {
                rep.viol(&format!("C15/exit@{}", i), format!("the process ended ({:?}) before step {} although the model predicts survival up to {:?}", end, i, death));
                return rep;
            }
        }
    }
    match death {
        None => {
            if end != End::Exited(0) || !recs.iter().any(|r| r["k"] == "done") {
                rep.viol("C15/exit@end", format!("the model predicts survival but the process ended with {:?}", end));
            }
        }
        Some((step, status)) if status >= 0 => {
            let want = End::Exited(status & 0xff);
            let done = recs.iter().any(|r| r["k"] == "done");
            let later = recs.iter().any(|r| r["k"] == "state" && r["step"].as_u64().unwrap_or(0) >= step as u64);
            if end != want || done || later {
                rep.viol(
                    &format!("C15/exit@{}", step),
                    format!("the model predicts termination with status {} during the delivery at step {}; observed {:?} (history finished: {}, later state records: {})", status, step, end, done, later),
                );
            }
        }
        Some((_step, negsig)) => {
            if end != End::Signaled(-negsig) {
                rep.inconclusive = Some("generated a delivery of a signal nobody registered".into());
            }
        }
    }
    rep
}

fn worker(def: &PropDef, args: &WorkerArgs) -> WorkerReport {
    // only generate deliveries of signals that were taken over before (construction, not rejection)
    let strat = strategy()
        .prop_map(|mut c| {
            let mut taken = [false; 7];
            c.ops.retain(|op| match op {
                Op::RegFlag { sig, .. } | Op::RegUsize { sig, .. } | Op::RegShutdown { sig, .. } | Op::RegSpy { sig } | Op::RegReraise { sig } => {
                    taken[*sig as usize % 7] = true;
                    true
                }
                Op::Deliver { sig, .. } => taken[*sig as usize % 7],
                _ => true,
            });
            if c.ops.is_empty() {
                c.ops.push(Op::Store { flag: 0, v: true });
            }
            c
        })
        .boxed();
    generic_worker(def, args, strat, &run_case)
}

fn replay(v: &Value) -> CaseReport {
    if let Some(o) = v.get("ordering_stress") {
        return ordering_report(o["children"].as_u64().unwrap_or(1500) as u32, 0);
    }
    let case: C15Case = serde_json::from_value(v.clone()).expect("case");
    run_case(&case)
}

pub static C15: PropDef = PropDef {
    id: "C15",
    prefixes: &["C15/"],
    rule: "forkprobe: histories (<=20) over {register flag, register_usize(value), register_conditional_shutdown(status 0..255, condition flag), spy action, application stores to the shared flags, deliver (real raise)} on 1-3 of 7 signals (TERM/QUIT/INT/HUP/USR1/USR2/ALRM), flags shared between roles; oracle: a model runs each delivery's actions in registration order against the flag state - flag values after every step, exact wait status at exactly the predicted delivery, no action after a firing shutdown (spy actions write to the report pipe from inside the handler), no atexit hook. Non-trivial = a shutdown is registered and the condition was stored to between deliveries, or >=2 deliveries reached a shutdown action; distinct = the case value. Second family (worker 0, real threads, optimised build): the flag action and the conditional shutdown of one delivery against an application thread that arms the shutdown and then reads the flag, both SeqCst, at a self-tuned instant inside the delivery (up to 600 / 20000 forked children): surviving a delivery although the flag was still read false after arming is the store-buffering outcome only weaker accesses inside the actions allow",
    assumptions: &["deliveries are generated only for signals the history already registered (the default action would kill the child by design)"],
    cases: (600, 60_000),
    shrink_iters: 300,
    worker,
    replay,
    extra: Some(extra),
};

// ---------------------------------------------------------------------------------------------
// Ordering family (worker 0): the flag actions and the conditional shutdown take part in the one
// total order of the application's SeqCst operations. Real threads, real signals, optimised build.
//
//     handler (thread 1, one delivery)        application (thread 2)
//     seen  <- true        (flag action)      armed <- true      (SeqCst)
//     if armed { _exit(42) }  (shutdown)      r = seen           (SeqCst)
//
// If the application reads r == false, the delivery had not yet run its first action when the
// shutdown was armed, so the second action of that very delivery must find the condition true and
// end the process. A process that survives that delivery although r == false has shown the
// store-buffering outcome, which only weaker-than-SeqCst accesses inside the actions permit (the
// flags are caller-owned std atomics: no hook can see their orderings, only execution can).
// Technique: each forked child runs rounds; a marker action publishes a time stamp, the
// application thread arms `center +- jitter` ticks later; `center` (shared between children) is
// tuned towards the boundary between "armed early: child dies with 42" and "armed late: r == true".

#[cfg(target_arch = "x86_64")]
mod ordering {
    use super::*;
    use std::arch::x86_64::_rdtsc;
    use std::sync::atomic::{AtomicBool, AtomicI64, AtomicU64, Ordering};
    use std::sync::Arc;

    const SHUTDOWN_STATUS: i32 = 42;
    const VIOLATION_STATUS: i32 = 99;
    const MARKER_SPIN: u64 = 2000;
    const JITTER: u64 = 400;
    const WARM_UP: u64 = 20;
    const ROUNDS_PER_CHILD: u64 = 4000;

    #[repr(C, align(128))]
    pub struct Shared {
        pub center: AtomicI64,
        pub late: AtomicU64,
        pub violations: AtomicU64,
    }
    #[repr(C, align(128))]
    struct Line(AtomicU64);
    static READY: Line = Line(AtomicU64::new(0));
    static GO: Line = Line(AtomicU64::new(0));
    static DONE: Line = Line(AtomicU64::new(0));
    static RESULT: Line = Line(AtomicU64::new(0));
    static ACK: Line = Line(AtomicU64::new(0));
    #[allow(clippy::declare_interior_mutable_const)]
    const EMPTY_LINE: Line = Line(AtomicU64::new(0));
    static SCRATCH: [Line; 40] = [EMPTY_LINE; 40];

    fn xorshift(state: &mut u64) -> u64 {
        let mut x = *state;
        x ^= x << 13;
        x ^= x >> 7;
        x ^= x << 17;
        *state = x;
        x
    }
    fn allowed_cpus() -> Vec<usize> {
        unsafe {
            let mut set: libc::cpu_set_t = std::mem::zeroed();
            if libc::sched_getaffinity(0, std::mem::size_of::<libc::cpu_set_t>(), &mut set) != 0 {
                return Vec::new();
            }
            (0..libc::CPU_SETSIZE as usize).filter(|cpu| libc::CPU_ISSET(*cpu, &set)).collect()
        }
    }
    fn pin(cpu: usize) {
        unsafe {
            let mut one: libc::cpu_set_t = std::mem::zeroed();
            libc::CPU_SET(cpu, &mut one);
            libc::sched_setaffinity(0, std::mem::size_of::<libc::cpu_set_t>(), &one);
        }
    }
    fn wait_for(what: &AtomicU64, val: u64) {
        while what.load(Ordering::Acquire) != val {
            std::hint::spin_loop();
        }
    }

    fn child(shared: &'static Shared, seed: u64, cpus: Option<(usize, usize)>) -> ! {
        normalise_signals();
        unsafe { libc::alarm(60) };
        if let Some(c) = cpus {
            pin(c.0);
        }
        let seen = Arc::new(AtomicBool::new(false));
        let _spacer: Vec<u8> = Vec::with_capacity(4096);
        let armed = Arc::new(AtomicBool::new(false));
        let sig = libc::SIGUSR1;
        let peek = Arc::clone(&armed);
        unsafe {
            signal_hook::low_level::register(sig, move || {
                let _ = peek.load(Ordering::Relaxed);
                let start = _rdtsc();
                GO.0.store(start, Ordering::Release);
                while _rdtsc().wrapping_sub(start) < MARKER_SPIN {}
                for line in SCRATCH.iter() {
                    line.0.store(start, Ordering::Relaxed);
                }
            })
            .expect("marker");
        }
        // the order matters: set the flag first, look at the condition second
        signal_hook::flag::register(sig, Arc::clone(&seen)).expect("flag");
        signal_hook::flag::register_conditional_shutdown(sig, SHUTDOWN_STATUS, Arc::clone(&armed)).expect("shutdown");
        {
            let seen = Arc::clone(&seen);
            let armed = Arc::clone(&armed);
            std::thread::spawn(move || {
                if let Some(c) = cpus {
                    pin(c.1);
                }
                let mut rng = seed | 1;
                for i in 1u64.. {
                    wait_for(&ACK.0, i - 1);
                    for line in SCRATCH.iter() {
                        line.0.store(i, Ordering::Relaxed);
                    }
                    seen.store(false, Ordering::SeqCst);
                    armed.store(false, Ordering::SeqCst);
                    let center = shared.center.load(Ordering::Relaxed);
                    let jitter = (xorshift(&mut rng) % JITTER) as i64 - (JITTER / 2) as i64;
                    let delay = (center + jitter).max(0) as u64;
                    GO.0.store(0, Ordering::SeqCst);
                    READY.0.store(i, Ordering::Release);
                    let start = loop {
                        let s = GO.0.load(Ordering::Acquire);
                        if s != 0 {
                            break s;
                        }
                    };
                    while unsafe { _rdtsc() }.wrapping_sub(start) < delay {}
                    if i <= WARM_UP {
                        RESULT.0.store(1, Ordering::Relaxed);
                        DONE.0.store(i, Ordering::Release);
                        continue;
                    }
                    // arm, then look: both SeqCst, as an application that cares about the order would
                    armed.store(true, Ordering::SeqCst);
                    let r = seen.load(Ordering::SeqCst);
                    RESULT.0.store(r as u64, Ordering::Relaxed);
                    DONE.0.store(i, Ordering::Release);
                }
            });
        }
        for i in 1u64..=ROUNDS_PER_CHILD {
            wait_for(&READY.0, i);
            unsafe { libc::raise(sig) };
            // still alive: the shutdown found its condition false
            wait_for(&DONE.0, i);
            if RESULT.0.load(Ordering::Relaxed) == 0 {
                shared.violations.fetch_add(1, Ordering::SeqCst);
                unsafe { libc::_exit(VIOLATION_STATUS) };
            }
            if i > WARM_UP {
                shared.late.fetch_add(1, Ordering::Relaxed);
                shared.center.fetch_sub(1, Ordering::Relaxed);
            }
            ACK.0.store(i, Ordering::Release);
        }
        unsafe { libc::_exit(0) }
    }

    /// Runs at most `children` forked children; returns (early, late, violations, final center).
    pub fn hunt(children: u32, seed: u64) -> Result<(u64, u64, u64, i64), String> {
        let shared: &'static Shared = unsafe {
            let mem = libc::mmap(std::ptr::null_mut(), 4096, libc::PROT_READ | libc::PROT_WRITE, libc::MAP_SHARED | libc::MAP_ANONYMOUS, -1, 0);
            if mem == libc::MAP_FAILED {
                return Err("mmap".into());
            }
            &*(mem as *const Shared)
        };
        shared.center.store(MARKER_SPIN as i64, Ordering::Relaxed);
        let allowed = allowed_cpus();
        let cpus = if allowed.len() >= 2 {
            // two hunts run at the same time (worker 0 and the lead worker of the second build):
            // they must not be pinned to the same pair of processors (each child spins on both)
            let lead2 = std::env::var("VERIF_PLAIN_LEAD").is_ok() as usize;
            let first = (lead2 * (allowed.len() / 4).max(1)) % allowed.len();
            let second = (first + allowed.len() / 2) % allowed.len();
            Some((allowed[first], allowed[second]))
        } else {
            None
        };
        let mut early = 0u64;
        let mut s = seed ^ 0x9E37_79B9_7F4A_7C15u64;
        for _ in 0..children {
            xorshift(&mut s);
            let pid = unsafe { libc::fork() };
            if pid < 0 {
                return Err("fork".into());
            }
            if pid == 0 {
                child(shared, s, cpus);
            }
            let mut status = 0;
            loop {
                let r = unsafe { libc::waitpid(pid, &mut status, 0) };
                if r == pid {
                    break;
                }
                if r < 0 && std::io::Error::last_os_error().kind() != std::io::ErrorKind::Interrupted {
                    return Err("waitpid".into());
                }
            }
            if !libc::WIFEXITED(status) {
                return Err(format!("child ended with wait status {:#x}", status));
            }
            match libc::WEXITSTATUS(status) {
                SHUTDOWN_STATUS => {
                    early += 1;
                    shared.center.fetch_add(3, Ordering::Relaxed);
                }
                VIOLATION_STATUS => break,
                0 => {}
                other => return Err(format!("child exited with unexpected status {}", other)),
            }
        }
        Ok((early, shared.late.load(Ordering::Relaxed), shared.violations.load(Ordering::SeqCst), shared.center.load(Ordering::Relaxed)))
    }
}

fn ordering_report(children: u32, seed: u64) -> CaseReport {
    let mut rep = CaseReport::default();
    rep.hash = hash_of(&("ordering", children));
    rep.class("ordering-stress");
    #[cfg(target_arch = "x86_64")]
    match ordering::hunt(children, seed) {
        Ok((early, late, violations, center)) => {
            rep.count("armed-deliveries-terminated", early);
            rep.count("armed-deliveries-survived-flag-seen", late);
            rep.nontrivial = early > 0 && late > 0;
            rep.sample = Some(json!({"ordering_stress": {"children": children}, "terminated_by_armed_shutdown": early, "survived_with_flag_seen": late, "survived_although_armed_before_flag": violations, "final_delay_ticks": center}));
            if violations > 0 {
                rep.viol("C15/survived-armed-delivery", format!("a delivery ran `flag := true; if armed {{ exit }}`; the application armed the shutdown (SeqCst) and then still read the flag false (SeqCst), and yet the process survived that delivery (after {} deliveries terminated by the armed shutdown and {} that survived with the flag seen): the actions' accesses are weaker than the one total order the property needs", early, late));
            }
        }
        Err(e) => rep.inconclusive = Some(format!("ordering stress: {}", e)),
    }
    rep
}

fn extra(def: &PropDef, args: &WorkerArgs, report: &mut WorkerReport) {
    let known = Known::load();
    let children = if args.tier == Tier::Thorough { 20_000 } else { 600 };
    let rep = ordering_report(children, args.seed);
    if let Some(v) = report.absorb(def, &rep, &known) {
        report.violation = Some((v.key, v.msg, json!({"ordering_stress": {"children": children}})));
    }
}
