//! C15 — flags and conditional shutdown do exactly what the flag state dictates (forkprobe).

use crate::driver::*;
use crate::forkrun::*;
use libc::c_int;
use proptest::collection::vec;
use proptest::prelude::*;
use serde::{Deserialize, Serialize};
use serde_json::{json, Value};
use std::sync::atomic::{AtomicBool, AtomicI32, AtomicUsize, Ordering};
use std::sync::Arc;

pub const SIGSET: [c_int; 7] = [libc::SIGTERM, libc::SIGQUIT, libc::SIGINT, libc::SIGHUP, libc::SIGUSR1, libc::SIGUSR2, libc::SIGALRM];

#[derive(Clone, Debug, Serialize, Deserialize, PartialEq)]
pub enum Op {
    RegFlag { sig: u8, flag: u8 },
    RegUsize { sig: u8, flag: u8, value: usize },
    RegShutdown { sig: u8, status: i32, cond: u8 },
    RegSpy { sig: u8 },
    /// unregister the k-th action registered so far (if still registered)
    Unreg { k: u8 },
    Store { flag: u8, v: bool },
    StoreUsize { flag: u8, v: usize },
    Deliver {
        sig: u8,
        /// deliver to a helper thread instead of the main thread (when the case has helpers)
        #[serde(default)]
        to_helper: bool,
    },
}

#[derive(Clone, Debug, Serialize, Deserialize)]
pub struct C15Case {
    pub ops: Vec<Op>,
    /// idle helper threads alive during the history (0-2) plus a watcher
    #[serde(default)]
    pub helpers: u8,
}

pub fn strategy() -> BoxedStrategy<C15Case> {
    let op = prop_oneof![
        3 => (0u8..7, 0u8..3).prop_map(|(sig, flag)| Op::RegFlag { sig, flag }),
        2 => (0u8..7, 0u8..2, prop_oneof![Just(0usize), Just(1), Just(usize::MAX), any::<usize>()]).prop_map(|(sig, flag, value)| Op::RegUsize { sig, flag, value }),
        3 => (0u8..7, 0i32..256, 0u8..3).prop_map(|(sig, status, cond)| Op::RegShutdown { sig, status, cond }),
        2 => (0u8..7).prop_map(|sig| Op::RegSpy { sig }),
        3 => (0u8..3, any::<bool>()).prop_map(|(flag, v)| Op::Store { flag, v }),
        2 => (0u8..12).prop_map(|k| Op::Unreg { k }),
        1 => (0u8..2, any::<usize>()).prop_map(|(flag, v)| Op::StoreUsize { flag, v }),
        6 => (0u8..7, prop::bool::weighted(0.35)).prop_map(|(sig, to_helper)| Op::Deliver { sig, to_helper }),
    ];
    // bias towards few signals so that actions pile up on one signal
    (vec(op, 1..21), 1u8..4, prop_oneof![2 => Just(0u8), 1 => Just(1u8), 1 => Just(2u8)])
        .prop_map(|(mut ops, nsig, helpers)| {
            for o in ops.iter_mut() {
                match o {
                    Op::RegFlag { sig, .. } | Op::RegUsize { sig, .. } | Op::RegShutdown { sig, .. } | Op::RegSpy { sig } | Op::Deliver { sig, .. } => *sig %= nsig,
                    _ => {}
                }
            }
            C15Case { ops, helpers }
        })
        .boxed()
}

static OUT_FD: AtomicI32 = AtomicI32::new(-1);
static HELPER_TICKS: [AtomicUsize; 4] = [const { AtomicUsize::new(0) }; 4];

extern "C" fn at_exit_marker() {
    let fd = OUT_FD.load(Ordering::SeqCst);
    if fd >= 0 {
        let m = b"{\"k\":\"atexit\"}\n";
        unsafe { libc::write(fd, m.as_ptr() as *const _, m.len()) };
    }
}

fn child(case: &C15Case, fd: i32) {
    crate::vsched::install();
    OUT_FD.store(fd, Ordering::SeqCst);
    unsafe { libc::atexit(at_exit_marker) };
    // helper threads: alive for the whole history, each waiting in sigsuspend; a watcher notices
    // when a single thread (rather than the process) has been terminated
    let main_tid = unsafe { libc::syscall(libc::SYS_gettid) } as i32;
    let mut helper_ids: Vec<(libc::pthread_t, i32, usize)> = Vec::new();
    if case.helpers > 0 {
        let (tx, rx) = std::sync::mpsc::channel::<(libc::pthread_t, i32, usize)>();
        for hi in 0..case.helpers as usize {
            let tx = tx.clone();
            std::thread::spawn(move || {
                // The helper keeps the history's signals blocked and waits in sigsuspend, which
                // atomically unblocks them: a signal sent at any moment stays pending until then,
                // its handler runs inside sigsuspend, and the return from it is the acknowledgement.
                unsafe {
                    let mut set: libc::sigset_t = std::mem::zeroed();
                    libc::sigemptyset(&mut set);
                    for s in SIGSET.iter() {
                        libc::sigaddset(&mut set, *s);
                    }
                    libc::pthread_sigmask(libc::SIG_BLOCK, &set, std::ptr::null_mut());
                    // only now may the main thread learn about this helper and signal it
                    let me = (libc::pthread_self(), libc::syscall(libc::SYS_gettid) as i32, hi);
                    tx.send(me).unwrap();
                    let mut empty: libc::sigset_t = std::mem::zeroed();
                    libc::sigemptyset(&mut empty);
                    loop {
                        libc::sigsuspend(&empty);
                        HELPER_TICKS[hi % 4].fetch_add(1, Ordering::SeqCst);
                    }
                }
            });
        }
        for _ in 0..case.helpers {
            helper_ids.push(rx.recv().unwrap());
        }
        std::thread::spawn(move || {
            unsafe {
                let mut all: libc::sigset_t = std::mem::zeroed();
                libc::sigfillset(&mut all);
                libc::pthread_sigmask(libc::SIG_BLOCK, &all, std::ptr::null_mut());
            }
            let pid = unsafe { libc::getpid() };
            loop {
                // signal 0: pure existence test of the main thread (ESRCH once it is gone)
                let r = unsafe { libc::syscall(libc::SYS_tgkill, pid, main_tid, 0) };
                if r != 0 && std::io::Error::last_os_error().raw_os_error() == Some(libc::ESRCH) {
                    let m = b"{\"k\":\"main-thread-gone\"}\n";
                    unsafe {
                        libc::write(OUT_FD.load(Ordering::SeqCst), m.as_ptr() as *const _, m.len());
                        libc::_exit(78);
                    }
                }
                std::thread::sleep(std::time::Duration::from_micros(500));
            }
        });
    }
    let bools: Vec<Arc<AtomicBool>> = (0..3).map(|_| Arc::new(AtomicBool::new(false))).collect();
    let us: Vec<Arc<AtomicUsize>> = (0..2).map(|_| Arc::new(AtomicUsize::new(0))).collect();
    let mut spy_id = 0;
    let mut ids: Vec<signal_hook::SigId> = Vec::new();
    for (i, op) in case.ops.iter().enumerate() {
        let mut res = "ok";
        match op {
            Op::RegFlag { sig, flag } => {
                match signal_hook::flag::register(SIGSET[*sig as usize % 7], bools[*flag as usize % 3].clone()) {
                    Ok(id) => ids.push(id),
                    Err(_) => res = "err",
                }
            }
            Op::RegUsize { sig, flag, value } => {
                match signal_hook::flag::register_usize(SIGSET[*sig as usize % 7], us[*flag as usize % 2].clone(), *value) {
                    Ok(id) => ids.push(id),
                    Err(_) => res = "err",
                }
            }
            Op::RegShutdown { sig, status, cond } => {
                match signal_hook::flag::register_conditional_shutdown(SIGSET[*sig as usize % 7], *status, bools[*cond as usize % 3].clone()) {
                    Ok(id) => ids.push(id),
                    Err(_) => res = "err",
                }
            }
            Op::RegSpy { sig } => {
                let id = spy_id;
                spy_id += 1;
                let r = unsafe {
                    signal_hook_registry::register(SIGSET[*sig as usize % 7], move || {
                        // async-signal-safe: one write of a prepared line
                        let mut buf = *b"{\"k\":\"spy\",\"id\":\"000\"}\n";
                        buf[17] = b'0' + ((id / 100) % 10) as u8;
                        buf[18] = b'0' + ((id / 10) % 10) as u8;
                        buf[19] = b'0' + (id % 10) as u8;
                        libc::write(OUT_FD.load(Ordering::SeqCst), buf.as_ptr() as *const _, buf.len());
                    })
                };
                match r {
                    Ok(id) => ids.push(id),
                    Err(_) => res = "err",
                }
            }
            Op::Unreg { k } => {
                if !ids.is_empty() {
                    signal_hook::low_level::unregister(ids[*k as usize % ids.len()]);
                }
            }
            Op::Store { flag, v } => bools[*flag as usize % 3].store(*v, Ordering::SeqCst),
            Op::StoreUsize { flag, v } => us[*flag as usize % 2].store(*v, Ordering::SeqCst),
            Op::Deliver { sig, to_helper } => {
                emit(fd, &json!({"k": "delivering", "step": i}));
                if *to_helper && !helper_ids.is_empty() {
                    let (pt, tid, hi) = helper_ids[0];
                    let before = HELPER_TICKS[hi % 4].load(Ordering::SeqCst);
                    let kr = unsafe { libc::pthread_kill(pt, SIGSET[*sig as usize % 7]) };
                    if kr != 0 {
                        emit(fd, &json!({"k": "infra", "what": format!("pthread_kill failed: {}", kr)}));
                    }
                    let start = std::time::Instant::now();
                    let pid = unsafe { libc::getpid() };
                    loop {
                        if HELPER_TICKS[hi % 4].load(Ordering::SeqCst) > before {
                            break;
                        }
                        let r = unsafe { libc::syscall(libc::SYS_tgkill, pid, tid, 0) };
                        if r != 0 && std::io::Error::last_os_error().raw_os_error() == Some(libc::ESRCH) {
                            emit(fd, &json!({"k": "thread-gone", "step": i}));
                            helper_ids.remove(0);
                            break;
                        }
                        if start.elapsed().as_millis() > 3000 {
                            emit(fd, &json!({"k": "infra", "what": "helper did not wake"}));
                            break;
                        }
                        std::thread::sleep(std::time::Duration::from_micros(200));
                    }
                } else {
                    unsafe { libc::raise(SIGSET[*sig as usize % 7]) };
                }
            }
        }
        let b: Vec<bool> = bools.iter().map(|x| x.load(Ordering::SeqCst)).collect();
        // usize values travel as strings (JSON numbers are not exact above 2^53)
        let u: Vec<String> = us.iter().map(|x| x.load(Ordering::SeqCst).to_string()).collect();
        emit(fd, &json!({"k": "state", "step": i, "res": res, "bools": b, "us": u}));
    }
    emit(fd, &json!({"k": "done"}));
}

#[derive(Clone, Debug)]
enum Act {
    Flag(usize),
    Usize(usize, usize),
    Shutdown(i32, usize),
    Spy(usize),
}

pub fn run_case(case: &C15Case) -> CaseReport {
    let c2 = case.clone();
    let (recs, end) = fork_stream(20_000, move |fd| child(&c2, fd));
    let mut rep = CaseReport::default();
    rep.hash = hash_of(&format!("{:?}", case));
    rep.sample = Some(json!({"case": case, "records": recs, "end": format!("{:?}", end)}));
    match &end {
        End::Timeout => {
            rep.inconclusive = Some("child timed out".into());
            return rep;
        }
        End::Infra(e) => {
            rep.inconclusive = Some(e.clone());
            return rep;
        }
        _ => {}
    }
    // ---- model
    let mut actions: Vec<Vec<(usize, Act)>> = vec![vec![]; 7];
    let mut taken_model = [false; 7];
    let mut nreg = 0usize;
    let mut bools = [false; 3];
    let mut us = [0usize; 2];
    let mut spies = 0usize;
    let mut expected_spies: Vec<usize> = Vec::new();
    let mut death: Option<(usize, i32)> = None;
    let mut armed_between = false;
    let mut shutdown_registered = false;
    let mut deliveries_with_shutdown = 0;
    let mut survived_after_disarm = false;
    let mut last_store_disarmed = false;
    let mut states: Vec<([bool; 3], [usize; 2])> = Vec::new();
    let mut removed_any = false;
    'outer: for (i, op) in case.ops.iter().enumerate() {
        match op {
            Op::RegFlag { sig, flag } => {
                taken_model[*sig as usize % 7] = true;
                actions[*sig as usize % 7].push((nreg, Act::Flag(*flag as usize % 3)));
                nreg += 1;
            }
            Op::RegUsize { sig, flag, value } => {
                taken_model[*sig as usize % 7] = true;
                actions[*sig as usize % 7].push((nreg, Act::Usize(*flag as usize % 2, *value)));
                nreg += 1;
            }
            Op::RegShutdown { sig, status, cond } => {
                shutdown_registered = true;
                taken_model[*sig as usize % 7] = true;
                actions[*sig as usize % 7].push((nreg, Act::Shutdown(*status, *cond as usize % 3)));
                nreg += 1;
            }
            Op::RegSpy { sig } => {
                taken_model[*sig as usize % 7] = true;
                actions[*sig as usize % 7].push((nreg, Act::Spy(spies)));
                nreg += 1;
                spies += 1;
            }
            Op::Unreg { k } => {
                if nreg > 0 {
                    let which = *k as usize % nreg;
                    for l in actions.iter_mut() {
                        l.retain(|(i, _)| *i != which);
                    }
                    removed_any = true;
                }
            }
            Op::Store { flag, v } => {
                bools[*flag as usize % 3] = *v;
                if shutdown_registered {
                    armed_between = true;
                    last_store_disarmed = !*v;
                }
            }
            Op::StoreUsize { flag, v } => us[*flag as usize % 2] = *v,
            Op::Deliver { sig, .. } => {
                let list: Vec<Act> = actions[*sig as usize % 7].iter().map(|x| x.1.clone()).collect();
                if list.is_empty() && !taken_model[*sig as usize % 7] {
                    // never taken over: the harness would die of the default action - the child
                    // skips nothing, so do not generate: treat as death by the signal itself
                    death = Some((i, -(SIGSET[*sig as usize % 7])));
                    break 'outer;
                }
                if list.iter().any(|a| matches!(a, Act::Shutdown(..))) {
                    deliveries_with_shutdown += 1;
                }
                for a in &list {
                    match a {
                        Act::Flag(f) => bools[*f] = true,
                        Act::Usize(f, v) => us[*f] = *v,
                        Act::Spy(id) => expected_spies.push(*id),
                        Act::Shutdown(status, c) => {
                            if bools[*c] {
                                death = Some((i, *status));
                                break 'outer;
                            }
                        }
                    }
                }
                if last_store_disarmed && list.iter().any(|a| matches!(a, Act::Shutdown(..))) {
                    survived_after_disarm = true;
                }
            }
        }
        states.push((bools, us));
    }
    rep.nontrivial = shutdown_registered && (armed_between || deliveries_with_shutdown >= 2 || survived_after_disarm);
    if death.map_or(false, |d| d.1 >= 0) {
        rep.class("dies-by-shutdown");
    } else if death.is_some() {
        rep.class("unhandled-signal");
    } else {
        rep.class("survives");
    }
    if deliveries_with_shutdown >= 2 {
        rep.class("shutdown-delivered>=2");
    }
    if removed_any {
        rep.class("unregister-between");
    }
    // ---- compare
    if recs.iter().any(|r| r["k"] == "infra") {
        rep.inconclusive = Some("helper thread did not wake".into());
        return rep;
    }
    if recs.iter().any(|r| r["k"] == "main-thread-gone" || r["k"] == "thread-gone") {
        rep.viol("C15/thread-exit-only", "an armed conditional shutdown ended only the thread that handled the signal; the process lived on".into());
    }
    if case.helpers > 0 {
        rep.class("multi-threaded");
    }
    if recs.iter().any(|r| r["k"] == "atexit") {
        rep.viol("C15/atexit-ran", "exit-time hooks ran: the shutdown did not terminate immediately".into());
    }
    let got_spies: Vec<usize> = recs.iter().filter(|r| r["k"] == "spy").filter_map(|r| r["id"].as_str().and_then(|x| x.parse::<usize>().ok())).collect();
    if got_spies != expected_spies {
        rep.viol("C15/action-order", format!("spy actions fired {:?}, the model expects {:?} (an action after a firing shutdown ran, or one before it did not)", got_spies, expected_spies));
    }
    for (i, (b, u)) in states.iter().enumerate() {
        match recs.iter().find(|r| r["k"] == "state" && r["step"] == i as u64) {
            Some(r) => {
                if r["res"] != "ok" {
                    rep.inconclusive = Some(format!("registration failed at step {}", i));
                    return rep;
                }
                let gb: Vec<bool> = r["bools"].as_array().map(|a| a.iter().map(|x| x.as_bool().unwrap_or(false)).collect()).unwrap_or_default();
                let gu: Vec<String> = r["us"].as_array().map(|a| a.iter().map(|x| x.as_str().unwrap_or("").to_string()).collect()).unwrap_or_default();
                let wu: Vec<String> = u.iter().map(|x| x.to_string()).collect();
                if gb != b.to_vec() || gu != wu {
                    rep.viol("C15/flag-value", format!("after step {} ({:?}) flags are {:?}/{:?}, the model expects {:?}/{:?}", i, case.ops[i], gb, gu, b, wu));
                    break;
                }
            }
            None => {
                rep.viol(&format!("C15/exit@{}", i), format!("the process ended ({:?}) before step {} although the model predicts survival up to {:?}", end, i, death));
                return rep;
            }
        }
    }
    match death {
        None => {
            if end != End::Exited(0) || !recs.iter().any(|r| r["k"] == "done") {
                rep.viol("C15/exit@end", format!("the model predicts survival but the process ended with {:?}", end));
            }
        }
        Some((step, status)) if status >= 0 => {
            let want = End::Exited(status & 0xff);
            let done = recs.iter().any(|r| r["k"] == "done");
            let later = recs.iter().any(|r| r["k"] == "state" && r["step"].as_u64().unwrap_or(0) >= step as u64);
            if end != want || done || later {
                rep.viol(
                    &format!("C15/exit@{}", step),
                    format!("the model predicts termination with status {} during the delivery at step {}; observed {:?} (history finished: {}, later state records: {})", status, step, end, done, later),
                );
            }
        }
        Some((_step, negsig)) => {
            if end != End::Signaled(-negsig) {
                rep.inconclusive = Some("generated a delivery of a signal nobody registered".into());
            }
        }
    }
    rep
}

fn worker(def: &PropDef, args: &WorkerArgs) -> WorkerReport {
    // only generate deliveries of signals that were taken over before (construction, not rejection)
    let strat = strategy()
        .prop_map(|mut c| {
            let mut taken = [false; 7];
            c.ops.retain(|op| match op {
                Op::RegFlag { sig, .. } | Op::RegUsize { sig, .. } | Op::RegShutdown { sig, .. } | Op::RegSpy { sig } => {
                    taken[*sig as usize % 7] = true;
                    true
                }
                Op::Deliver { sig, .. } => taken[*sig as usize % 7],
                _ => true,
            });
            if c.ops.is_empty() {
                c.ops.push(Op::Store { flag: 0, v: true });
            }
            c
        })
        .boxed();
    generic_worker(def, args, strat, &run_case)
}

fn replay(v: &Value) -> CaseReport {
    let case: C15Case = serde_json::from_value(v.clone()).expect("case");
    run_case(&case)
}

pub static C15: PropDef = PropDef {
    id: "C15",
    prefixes: &["C15/"],
    rule: "forkprobe: histories (<=20) over {register flag, register_usize(value), register_conditional_shutdown(status 0..255, condition flag), spy action, application stores to the shared flags, deliver (real raise)} on 1-3 of 7 signals (TERM/QUIT/INT/HUP/USR1/USR2/ALRM), flags shared between roles; oracle: a model runs each delivery's actions in registration order against the flag state - flag values after every step, exact wait status at exactly the predicted delivery, no action after a firing shutdown (spy actions write to the report pipe from inside the handler), no atexit hook. Non-trivial = a shutdown is registered and the condition was stored to between deliveries, or >=2 deliveries reached a shutdown action; distinct = the case value",
    assumptions: &["deliveries are generated only for signals the history already registered (the default action would kill the child by design)"],
    cases: (600, 60_000),
    shrink_iters: 300,
    worker,
    replay,
    extra: None,
};
