mod alloc;
mod c03;
mod c05;
mod c12;
mod c13;
mod c14;
mod c15;
mod c16;
mod c17;
mod chan;
mod driver;
mod forkrun;
mod iter;
mod probe;
mod reg;
mod vsched;

use driver::{PropDef, Tier};

#[global_allocator]
static GLOBAL: alloc::CountingAlloc = alloc::CountingAlloc;

fn props() -> Vec<&'static PropDef> {
    vec![&chan::C06, &chan::C07, &chan::C08, &reg::C01, &reg::C02, &c03::C03, &reg::C04, &reg::C18, &c14::C14, &c12::C12, &c16::C16, &c15::C15, &c13::C13, &c05::C05, &c17::C17, &iter::C09, &iter::C10, &iter::C11]
}

fn find(id: &str) -> &'static PropDef {
    match props().into_iter().find(|p| p.id == id) {
        Some(p) => p,
        None => {
            eprintln!("unknown property {}", id);
            std::process::exit(2);
        }
    }
}

fn main() {
    let a: Vec<String> = std::env::args().skip(1).collect();
    if a.is_empty() {
        eprintln!("usage: sigverif check <ID> <quick|thorough> | replay <ID> <file> | worker ...");
        std::process::exit(2);
    }
    let code = match a[0].as_str() {
        "check" => {
            let tier = if a.get(2).map(|s| s.as_str()) == Some("thorough") { Tier::Thorough } else { Tier::Quick };
            driver::check_main(find(&a[1]), tier)
        }
        "worker" => driver::worker_main(find(&a[1]), &a[1..]),
        "replay" => driver::replay_main(find(&a[1]), &a[2]),
        _ => 2,
    };
    std::process::exit(code);
}
