use sigverif::*;

use sigverif::driver::{self, PropDef, Tier};

#[global_allocator]
static GLOBAL: alloc::CountingAlloc = alloc::CountingAlloc;


fn find(id: &str) -> &'static PropDef {
    match props().into_iter().find(|p| p.id == id) {
        Some(p) => p,
        None => {
            eprintln!("unknown property {}", id);
            std::process::exit(2);
        }
    }
}

fn main() {
    let a: Vec<String> = std::env::args().skip(1).collect();
    if a.is_empty() {
        eprintln!("usage: sigverif check <ID> <quick|thorough> | replay <ID> <file> | worker ...");
        std::process::exit(2);
    }
    let code = match a[0].as_str() {
        "check" => {
            let tier = if a.get(2).map(|s| s.as_str()) == Some("thorough") { Tier::Thorough } else { Tier::Quick };
            driver::check_main(find(&a[1]), tier)
        }
        "worker" => driver::worker_main(find(&a[1]), &a[1..]),
        "replay" => driver::replay_main(find(&a[1]), &a[2]),
        _ => 2,
    };
    std::process::exit(code);
}
