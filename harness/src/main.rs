use sigverif::*;

use sigverif::driver::{self, PropDef, Tier};

#[global_allocator]
static GLOBAL: alloc::CountingAlloc = alloc::CountingAlloc;

// The executable's own definitions of write(2) and send(2) take precedence over the C library's
// for every call made through the `libc` crate (the library under test included): attempts on
// watched descriptors are counted (sysspy.rs), then the raw system call is made.
#[no_mangle]
pub unsafe extern "C" fn write(fd: libc::c_int, buf: *const libc::c_void, count: libc::size_t) -> libc::ssize_t {
    sysspy::spy(fd, count, None);
    libc::syscall(libc::SYS_write, fd, buf, count) as libc::ssize_t
}
#[no_mangle]
pub unsafe extern "C" fn send(fd: libc::c_int, buf: *const libc::c_void, len: libc::size_t, flags: libc::c_int) -> libc::ssize_t {
    sysspy::spy(fd, len, Some(flags));
    libc::syscall(libc::SYS_sendto, fd, buf, len, flags, 0usize, 0usize) as libc::ssize_t
}

fn find(id: &str) -> &'static PropDef {
    match props().into_iter().find(|p| p.id == id) {
        Some(p) => p,
        None => {
            eprintln!("unknown property {}", id);
            std::process::exit(2);
        }
    }
}

fn main() {
    let a: Vec<String> = std::env::args().skip(1).collect();
    if a.is_empty() {
        eprintln!("usage: sigverif check <ID> <quick|thorough> | replay <ID> <file> | worker ...");
        std::process::exit(2);
    }
    let code = match a[0].as_str() {
        "check" => {
            let tier = if a.get(2).map(|s| s.as_str()) == Some("thorough") { Tier::Thorough } else { Tier::Quick };
            driver::check_main(find(&a[1]), tier)
        }
        "worker" => driver::worker_main(find(&a[1]), &a[1..]),
        "replay" => driver::replay_main(find(&a[1]), &a[2]),
        _ => 2,
    };
    std::process::exit(code);
}
