#![no_main]
//! libFuzzer target: bytes -> synthetic siginfo record -> Origin::extract vs the reference decoder.
use libfuzzer_sys::fuzz_target;
use sigverif::c17::C17Case;
mod common;

fuzz_target!(|data: &[u8]| {
    if data.len() < 16 {
        return;
    }
    let w = |i: usize| i32::from_le_bytes([data[i], data[i + 1], data[i + 2], data[i + 3]]);
    // bias the code towards the small range where the distinguished codes live
    let raw = w(4);
    let code = match data[0] & 3 {
        0 => raw,
        1 => (raw % 16) - 8,
        2 => 0x80 + (raw % 4),
        _ => raw % 140,
    };
    let signo = if data[1] & 1 == 0 { (w(0).rem_euclid(64)) + 1 } else { w(0) };
    // boundary identities: zero pid / uid
    let pid = if data[2] & 7 == 0 { 0 } else { w(8) };
    let uid = if data[3] & 7 == 0 { 0 } else { w(12) as u32 };
    let case = C17Case::Synth { signo, code, pid, uid, fill: data[16..].iter().cloned().take(100).collect() };
    let rep = sigverif::c17::run_case(&case);
    common::judge("C17", &["C17/"], serde_json::to_value(&case).unwrap(), &rep);
});
