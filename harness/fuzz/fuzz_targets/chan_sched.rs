#![no_main]
//! libFuzzer target: bytes -> channel program + schedule -> the C06/C07/C08 oracles.
use arbitrary::Unstructured;
use libfuzzer_sys::fuzz_target;
use sigverif::chan::{ChanCase, ChanOp, NestedOp};
mod common;

fn decode(u: &mut Unstructured) -> arbitrary::Result<ChanCase> {
    let np = u.int_in_range(0..=8)?;
    let mut prefix = Vec::new();
    for _ in 0..np {
        prefix.push(u.int_in_range(0..=3)? != 0);
    }
    let nt = u.int_in_range(1..=4)?;
    let mut threads = Vec::new();
    for _ in 0..nt {
        let no = u.int_in_range(1..=6)?;
        let mut ops = Vec::new();
        for _ in 0..no {
            ops.push(match u.int_in_range(0..=15)? {
                0..=7 => ChanOp::Send,
                8..=13 => ChanOp::Recv,
                14 => ChanOp::SoloSend,
                _ => ChanOp::SoloRecv,
            });
        }
        threads.push(ops);
    }
    let nn = u.int_in_range(0..=3)?;
    let mut nested = Vec::new();
    for _ in 0..nn {
        nested.push(NestedOp { thread: u.int_in_range(0..=3)? % nt, at: u.int_in_range(1..=30)?, recv: u.int_in_range(0..=4)? == 0, solo: u.arbitrary()? });
    }
    let weak = u.int_in_range(0..=3)? != 0;
    let drain = if u.int_in_range(0..=1)? == 0 { 255 } else { u.int_in_range(0..=4)? };
    let schedule: Vec<u8> = u.bytes(u.len().min(200))?.to_vec();
    Ok(ChanCase { prefix, threads, nested, schedule, weak, drain })
}

fuzz_target!(|data: &[u8]| {
    let mut u = Unstructured::new(data);
    if let Ok(case) = decode(&mut u) {
        let rep = sigverif::chan::run_case(&case);
        common::judge("C06", &["C06/", "C07/", "C08/"], serde_json::to_value(&case).unwrap(), &rep);
    }
});
