#![no_main]
//! libFuzzer target: bytes -> half-lock program + schedule -> the C01/C18 oracles on the bare lock.
use arbitrary::Unstructured;
use libfuzzer_sys::fuzz_target;
use sigverif::probe::{POp, PNested, ProbeCase};
mod common;

fn decode(u: &mut Unstructured) -> arbitrary::Result<ProbeCase> {
    let locks = u.int_in_range(1..=2)?;
    let nt = u.int_in_range(2..=5)?;
    let mut threads = Vec::new();
    for _ in 0..nt {
        let no = u.int_in_range(1..=5)?;
        let mut ops = Vec::new();
        for _ in 0..no {
            let lock = u.int_in_range(0..=1)?;
            ops.push(match u.int_in_range(0..=12)? {
                0..=5 => POp::Read { lock },
                6..=9 => POp::Store { lock },
                10..=11 => POp::Update { lock },
                _ => POp::SoloRead { lock },
            });
        }
        threads.push(ops);
    }
    let nn = u.int_in_range(0..=3)?;
    let mut nested = Vec::new();
    for _ in 0..nn {
        nested.push(PNested { thread: u.int_in_range(0..=5)? % nt, at: u.int_in_range(1..=50)?, lock: u.int_in_range(0..=1)? });
    }
    let weak = u.int_in_range(0..=4)? != 0;
    let schedule: Vec<u8> = u.bytes(u.len().min(160))?.to_vec();
    Ok(ProbeCase { locks, threads, nested, schedule, weak, script: vec![] })
}

fuzz_target!(|data: &[u8]| {
    let mut u = Unstructured::new(data);
    if let Ok(case) = decode(&mut u) {
        let rep = sigverif::probe::run_case(&case);
        common::judge("C01", &["C01/", "C18/"], serde_json::json!({"Probe": serde_json::to_value(&case).unwrap()}), &rep);
    }
});
