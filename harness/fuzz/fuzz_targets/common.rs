// shared by the fuzz targets: report a violating case as a replay file, then crash
use sigverif::driver::CaseReport;

pub fn judge(prop: &str, prefixes: &[&str], case_json: serde_json::Value, rep: &CaseReport) {
    if rep.inconclusive.is_some() {
        return;
    }
    // the check script narrows the verdict to the property it is deciding
    let env_prop = std::env::var("VERIF_FUZZ_PROP").ok();
    let env_pref = std::env::var("VERIF_FUZZ_PREFIXES").ok();
    let prop: &str = env_prop.as_deref().unwrap_or(prop);
    let owned: Vec<String> = env_pref.map(|p| p.split(',').map(|x| x.to_string()).collect()).unwrap_or_else(|| prefixes.iter().map(|x| x.to_string()).collect());
    let prefixes: Vec<&str> = owned.iter().map(|x| x.as_str()).collect();
    for v in &rep.violations {
        if prefixes.iter().any(|p| v.key.starts_with(p)) {
            let dir = std::env::var("VERIF_FUZZ_OUT").unwrap_or_else(|_| "/verif/work/fuzz-out".to_string());
            let _ = std::fs::create_dir_all(&dir);
            let path = format!("{}/{}-fuzz-{}.json", dir, prop, std::process::id());
            let doc = serde_json::json!({"property": prop, "key": v.key, "msg": v.msg, "engine": "libfuzzer", "case": case_json});
            let _ = std::fs::write(&path, serde_json::to_string_pretty(&doc).unwrap());
            eprintln!("FUZZ-VIOLATION property={} key={} replay={}", prop, v.key, path);
            std::process::abort();
        }
    }
}
