#!/usr/bin/env python3
"""Regenerates /verif/MANIFEST.json from the table below (kept in one place so it stays valid)."""
import json, subprocess
hooks_commits = subprocess.run(["git","-C","/repo","log","--format=%h %s","617ef86..HEAD"],capture_output=True,text=True).stdout.strip().split("\n")
hook_ids=[l.split()[0] for l in hooks_commits if "verif hooks" in l]
CHECKS = {
 "C06": ("vsched-inproc","generated send/recv programs x byte schedules (stale reads, spurious CAS, nested ops) vs hb-based FIFO/discard/empty oracle","§5 C06",
         "Exploration: tens of thousands of generated programs and schedules per run against an explicit history oracle; no absence claim. Right level because the property quantifies over interleavings and weak-memory outcomes that only a schedule-owning executor can sample."),
 "C07": ("vsched-inproc","same runs (final drain partial: channel dropped non-empty) plus iterator scenarios over the exfiltrators' channels; vector-clock race check at every raw cell access + write/take alternation + drop ledger; real-thread reader/adder stress with a poisoning, quarantining allocator","§5 C07",
         "Exploration with a race detector driven by the orderings declared in the source; reports an allowed C11 execution whenever it fires."),
 "C08": ("vsched-inproc","same runs plus iterator scenarios over the exfiltrators' channels; isolated (peers frozen) ops step bound, no wait ops, no panics, no heap operation inside send/recv; long-run soak of one channel against a FIFO model","§5 C08",
         "Exploration: every isolated operation is bounded in its own atomic steps; unbounded loops show as step-bound overruns."),
}
CHECKS.update({
 "C01": ("vsched-fork","generated register/unregister/deliver programs x byte schedules x nested deliveries (one forked child per case) vs quiescence, drop-once-by-remover and snapshot-epoch invariants; owner-drop and self-pipe families; real in-flight anchors (kernel-delivered signal blocked inside an action while an action is removed)","§5 C01",
         "Exploration: thousands of generated multi-threaded histories per run, each with a harness-chosen interleaving at the granularity of every shared-memory access of the registry; the oracle is an invariant over the recorded history. No absence claim."),
 "C02": ("vsched-fork","same generator; the ordered action list of every delivery must equal the list of one registry state current during it (state sequence reconstructed from publish events); real in-flight anchors","§5 C02",
         "Exploration against a reference model of the registry state sequence."),
 "C03": ("vsched-fork","same generator with isolated deliveries (peers frozen); operation kinds, own step count, allocator wrapper, abort detection","§5 C03",
         "Exploration: each delivery's own operations are classified; any lock/wait/alloc or unbounded loop is a violation."),
 "C04": ("vsched-fork","same generator with real pre-existing dispositions and generated sa_flags installed via sigaction (simulated kernel models SA_SIGINFO / SA_RESETHAND); foreign-handler call log (once, first, same arguments); real-signal anchors with queued payloads and a suspend/continue cycle","§5 C04",
         "Exploration over arrival instants relative to first registrations, including the take-over window."),
 "C18": ("vsched-fork","same generator with panicking mutators + fair completion (no deadlock / step bound) + directed sustained-overlap schedules (32 rounds, parameters generated); real-thread probes: refused registrations with re-entrant captures, first registry use in a forked child under in-flight deliveries","§5 C18",
         "Exploration; liveness decided through finite surrogates (fair completion under a step bound, K-round periodic witness)."),
})
FP_NOTE = "trusts: the kernel of this sandbox as ground truth for signal delivery; one forked child per case starting from a normalised disposition table; proptest generators seeded from VERIF_SEED"
CHECKS.update({
 "C05": ("forkprobe","model-based: generated register/unregister/unregister_signal/deliver/block/unblock histories (deliveries pending while blocked) with real raise vs a per-signal ordered-list reference model; dispositions probed after every step; long-run soak (260 000 operations in one process, ids beyond 16 bits, 700 live actions) against an in-process model","§5 C05",
         "Exploration against a reference model over generated histories of up to 200 operations on up to 20 signals."),
 "C12": ("forkprobe","model-based: generated new/add_signal/clone/drop histories over the full integer range x 3 exfiltrators; every watched signal probed by real raise after every step; real-thread stress dropping the last owners concurrently","§5 C12",
         "Exploration against an instance model; process death and panicking drops are observations."),
 "C13": ("forkprobe","generated descriptor kind x fill level x burst lengths x rejected registrations x shared pipe x hung-up reader x descriptor-number reuse probe; byte-count oracle with measured capacity and write/send attempts counted by symbol interposition; iterator teardown scenarios under the executor","§5 C13",
         "Exploration with real deliveries into real pipes and sockets, including completely full ones."),
 "C14": ("forkprobe","entry point (Handle::add_signal also on closed / outlived instances) x signal number table (enumerated) x generated prefixes; independent expectation table, dispositions/Arc counts/descriptors compared before and after","§5 C14",
         "Exploration; the entry x boundary-number table is enumerated completely on every run (thorough: the whole [-2,130] range)."),
 "C15": ("forkprobe","model-based: generated flag/shutdown/spy/re-raise/store/deliver histories (helper threads, third-party SA_NODEFER handlers first); exact wait status, flag values and in-handler spy records vs the model; real-thread ordering stress with a self-tuned arming instant","§5 C15",
         "Exploration against a model that replays each delivery's actions in registration order."),
 "C16": ("forkprobe","differential: emulate_default_handler vs the kernel's own default action in paired probes (fresh non-orphaned process group), signal x 8 contexts (incl. second thread, registry busy with the signal, two stops in a row) enumerated on two builds of the library (with and without debug assertions / overflow checks) + generated extras; names vs C headers","§5 C16",
         "Exploration / differential testing with the kernel as oracle; the signal x context table is enumerated completely on every run."),
 "C17": ("forkprobe","differential: Origin::extract vs an independent decoder on generated siginfo images; real deliveries by 12 mechanisms vs getpid/getuid/child pid","§5 C17",
         "Exploration over synthetic records (tens of thousands per run) plus every sending mechanism for real."),
})
CHECKS.update({
 "C09": ("vsched-fork","generated consumer mode x exfiltrator x deliveries/add_signal x nested deliveries x byte schedule with a quiescence observer; every finished delivery of a watched signal must be reported before the system comes to rest; async-style consumers over stream / datagram / seqpacket self-pipes; real-signal bursts on the consumer's own thread; focused add-while-delivering family","§5 C09",
         "Exploration over interleavings of deliveries with the consumer's read/drain/scan steps on a real socketpair; lost wake-ups show as unreported signals at quiescence."),
 "C10": ("vsched-fork","same scenarios; per-yield counting invariant, watched-set membership, record-to-delivery matching by unique sender id, per-signal order","§5 C10",
         "Exploration with an invariant checked at every yield of the recorded history."),
 "C11": ("vsched-fork","same scenarios with close()/is_closed() at generated instants; stickiness, no blocked thread after close, poll contract (Pending only after the callback said 'nothing')","§5 C11",
         "Exploration over close instants; the async adapters are represented by a harness poller with their documented behaviour."),
})
NA = []
ALL = ["C%02d"%i for i in range(1,19)]
checks=[]
for pid,(eng,tech,ref,text) in CHECKS.items():
    checks.append({
      "property_id": pid,
      "quick_cmd": f"./check {pid} quick",
      "thorough_cmd": f"./check {pid} thorough",
      "evidence_file": f"/verif/evidence/{pid}.json",
      "replay_cmd_template": f"./check {pid} quick --replay {{path}}",
      "engine": eng,
      "level_claimed": {"category":"exploration","text":text,"design_ref":ref},
      "level_note": FP_NOTE if eng=="forkprobe" else "trusts: the in-repo shim reports every shared-memory access of the code under test; the executor's memory model is a sound subset of C11; proptest generators seeded from VERIF_SEED",
      "technique": "property-based testing: "+tech,
    })
na=[{"property_id":p,"reason":"check not built yet in this session (planned, see DESIGN.md §5); not claimed until it is silent and sensitive"} for p in ALL if p not in CHECKS]
m={
 "version":1,
 "setup_cmd":"cd /verif/harness && CARGO_NET_OFFLINE=true cargo build --release --offline && CARGO_NET_OFFLINE=true cargo build --profile plain --offline",
 "hooks":{"guard":"sighook_verif","enable":"RUSTFLAGS=\"--cfg sighook_verif\" (set in /verif/harness/.cargo/config.toml)","baseline_off_cmd":"cd /repo && cargo test --workspace --no-fail-fast --offline","source_commits":hook_ids,"add_only":True},
 "engines":[
   {"name":"vsched-fork","path":"/verif/harness/src/reg.rs","serves_properties":["C01","C02","C03","C04","C09","C10","C11","C18"],"kind_free_text":"the same executor, one forked child per case; deliveries are direct calls of the library's real dispatcher placed by the schedule (own thread or nested on the interrupted thread); real sigaction dispositions"},
   {"name":"forkprobe","path":"/verif/harness/src/forkrun.rs","serves_properties":["C05","C12","C13","C14","C15","C16","C17"],"kind_free_text":"sequential generated histories interpreted against the real API in a forked child (real signals), observations streamed over a pipe, compared with a reference model or the kernel; how the child ended is an observation"},
   {"name":"libfuzzer","path":"/verif/harness/fuzz","serves_properties":["C01","C06","C07","C08","C17","C18"],"kind_free_text":"cargo-fuzz / libFuzzer targets (chan_sched, probe_sched, siginfo_extract) decoding bytes into the same case types and running the same oracles; used by the thorough tiers (tools/fuzz_campaign.sh)"},
   {"name":"vsched-inproc","path":"/verif/harness/src/vsched.rs","serves_properties":["C06","C07","C08","C01","C18"],"kind_free_text":"schedule-owning executor: token-passing OS threads, byte-encoded schedules, C11-subset memory model with vector clocks, nested operations; proptest generators and shrinking"},
 ],
 "checks":checks,
 "not_applicable":na,
 "notes":"All checks: exit 0 held / 1 VIOLATION line / 2 infrastructure. VERIF_SEED seeds every generator.",
}
json.dump(m,open("/verif/MANIFEST.json","w"),indent=1)
print("checks:",len(checks),"na:",len(na))
