#!/bin/bash
# tools/silence.sh <tier> <seeds...> : every check on the unchanged tree, several seeds; prints only problems.
TIER=$1; shift
/verif/check build || exit 2
cd /verif
for s in "$@"; do
  for p in C01 C02 C03 C04 C05 C06 C07 C08 C09 C10 C11 C12 C13 C14 C15 C16 C17 C18; do
    out=$(VERIF_SEED=$s ./target/release/sigverif check $p $TIER 2>&1); rc=$?
    if [ $rc -ne 0 ]; then echo "seed=$s $p rc=$rc: $(echo "$out" | tail -3 | tr '\n' ' ')"; cp replays/$p-seed$s-*.json /verif/work/ 2>/dev/null; fi
  done
  echo "seed $s done"
done
