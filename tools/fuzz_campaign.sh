#!/bin/bash
# tools/fuzz_campaign.sh <ID> <target> <prefixes>: libFuzzer campaign pinned by -seed/-runs, 16 jobs,
# seeded from /verif/corpus/<target>; a violating input is written as a replay file by the target.
ID=$1; TARGET=$2; PREF=$3
SEED=${VERIF_SEED:-0}; [ "$SEED" = "0" ] && SEED=1000003
RUNS=${VERIF_FUZZ_RUNS:-40000}
W=/verif/work/fuzz-$ID-$$; mkdir -p $W/corpus $W/out
cp /verif/corpus/$TARGET/* $W/corpus/ 2>/dev/null
cd /verif/harness || exit 2
export RUSTFLAGS="--cfg sighook_verif" CARGO_NET_OFFLINE=true VERIF_FUZZ_OUT=$W/out VERIF_FUZZ_PROP=$ID VERIF_FUZZ_PREFIXES=$PREF
if ! cargo +nightly fuzz build $TARGET >$W/build.log 2>&1; then echo "fuzz build failed"; tail -5 $W/build.log; rm -rf $W; exit 2; fi
T0=$(date +%s)
( cd $W && timeout 900 cargo +nightly fuzz run --fuzz-dir /verif/harness/fuzz $TARGET $W/corpus -- -runs=$RUNS -seed=$SEED -jobs=16 -workers=16 -len_control=0 -max_len=400 -artifact_prefix=$W/ >$W/run.log 2>&1 )
T1=$(date +%s)
EXECS=$(cat $W/fuzz-*.log 2>/dev/null | grep -oE "Done [0-9]+ runs" | awk '{s+=$2} END {print s+0}')
COV=$(cat $W/fuzz-*.log 2>/dev/null | grep -oE "cov: [0-9]+" | awk '{if ($2>m) m=$2} END {print m+0}')
CORP=$(ls $W/corpus | wc -l)
python3 - "$ID" "$TARGET" "$EXECS" "$COV" "$CORP" "$((T1-T0))" <<'PY'
import json,sys
pid,target,execs,cov,corp,secs=sys.argv[1:7]
p='/verif/evidence/%s.json'%pid
d=json.load(open(p))
d['coverage']['fuzz']={'engine':'libFuzzer (cargo-fuzz, ASan)','target':target,'executions':int(execs),'coverage_edges':int(cov),'corpus_files':int(corp),'wall_s':int(secs)}
d['coverage']['evaluations']=d['coverage']['evaluations']+int(execs)
json.dump(d,open(p,'w'),indent=1)
PY
echo "$ID thorough fuzz: target=$TARGET executions=$EXECS cov_edges=$COV wall=$((T1-T0))s"
V=$(ls $W/out/*.json 2>/dev/null | head -1)
if [ -n "$V" ]; then
  DEST=/verif/replays/$ID-fuzz-seed$SEED.json; cp "$V" "$DEST"
  grep -h "FUZZ-VIOLATION" $W/fuzz-*.log $W/run.log 2>/dev/null | head -1
  echo "VIOLATION property=$ID replay=$DEST"; rm -rf $W; exit 1
fi
if ls $W/crash-* $W/oom-* $W/timeout-* >/dev/null 2>&1; then
  echo "fuzzer stopped on a crash/oom/timeout without an oracle verdict (kept in $W)"; exit 2
fi
rm -rf $W; exit 0
