#!/usr/bin/env python3
"""tools/automut.py <repo-relative file> <check ids,comma> [max] : line-level mutation sweep.

For every mutant of the file (simple operators, one line each): apply it to /repo, run the given
quick checks (via /verif/check, which rebuilds), record which check caught it; for survivors run the
repository's own tests to see whether the change is one the existing suite would have rejected.
Always restores the file. Results appended to /verif/work/automut.log (one JSON line per mutant).
"""
import json, os, re, subprocess, sys, time

REPO = "/repo"
rel = sys.argv[1]
checks = sys.argv[2].split(",")
limit = int(sys.argv[3]) if len(sys.argv) > 3 else 10_000
path = os.path.join(REPO, rel)
orig = open(path).read()
lines = orig.split("\n")

OPS = [
    (r"Ordering::SeqCst", "Ordering::Relaxed"),
    (r"Ordering::Acquire", "Ordering::Relaxed"),
    (r"Ordering::Release", "Ordering::Relaxed"),
    (r"==", "!="), (r"!=", "=="),
    (r"(?<![<>=!-])<(?![<=])", "<="), (r"(?<![<>=!-])>(?![>=])", ">="), (r"<=", "<"), (r">=", ">"),
    (r"\+ 1\b", "+ 2"), (r"\+ 1\b", "- 1"), (r"- 1\b", "- 0"), (r"% 2\b", "% 3"),
    (r"\btrue\b", "false"), (r"\bfalse\b", "true"),
    (r"&&", "||"), (r"\|\|", "&&"),
    (r"fetch_add", "fetch_sub"), (r"fetch_sub", "fetch_add"),
    (r"\.is_some\(\)", ".is_none()"), (r"\.is_none\(\)", ".is_some()"),
    (r"\.is_ok\(\)", ".is_err()"), (r"\.is_empty\(\)", ".is_empty() == false"),
    (r"\b0\b", "1"), (r"\b1\b", "0"), (r"\b5\b", "4"), (r"\b128\b", "64"), (r"\b16\b", "2"), (r"\b3\b", "2"),
    (r"\bSIGKILL\b", "SIGTERM"), (r"\bTerm\b", "Ignore"), (r"\bIgnore\b", "Term"), (r"\bStop\b", "Ignore"),
]


def eligible(i, l):
    s = l.strip()
    if not s or s.startswith("//") or s.startswith("#[") or s.startswith("#!"):
        return False
    if "sighook_verif" in l or "verif_shim" in l:
        return False
    # skip the test modules at the end of the files
    return True


def in_tests(i):
    for j in range(i, -1, -1):
        if lines[j].startswith("mod tests") or lines[j].startswith("mod test ") or "#[cfg(test)]" in lines[j]:
            return True
    return False


mutants = []
for i, l in enumerate(lines):
    if not eligible(i, l) or in_tests(i):
        continue
    if i > 0 and "sighook_verif" in lines[i - 1]:
        continue
    for pat, rep in OPS:
        for m in re.finditer(pat, l):
            nl = l[: m.start()] + rep + l[m.end():]
            if nl != l:
                mutants.append((i, nl, f"{pat} -> {rep}"))
    s = l.strip()
    # statement deletion: simple call statements
    if s.endswith(";") and not s.startswith(("let ", "use ", "return", "pub ", "const ", "static ", "type ", "break", "continue")) and "=" not in s.split("(")[0]:
        mutants.append((i, l[: len(l) - len(l.lstrip())] + "{}", "delete statement"))

print(f"{rel}: {len(mutants)} mutants, checks {checks}", flush=True)
log = open("/verif/work/automut.log", "a")


def run(cmd, timeout=900, cwd=None):
    try:
        p = subprocess.run(cmd, shell=True, capture_output=True, text=True, timeout=timeout, cwd=cwd)
        return p.returncode, p.stdout + p.stderr
    except subprocess.TimeoutExpired:
        return 124, "timeout"


done = 0
try:
    for (i, nl, desc) in mutants[:limit]:
        new = lines[:]
        new[i] = nl
        open(path, "w").write("\n".join(new))
        rec = {"file": rel, "line": i + 1, "orig": lines[i].strip(), "mut": nl.strip(), "op": desc, "caught": [], "rc2": []}
        built = True
        for c in checks:
            rc, out = run(f"/verif/check {c} quick")
            if rc == 1:
                key = re.search(r"violation key=(\S+)", out)
                rec["caught"].append([c, key.group(1) if key else "?"])
                break
            if rc == 2:
                rec["rc2"].append(c)
                if "harness build failed" in out:
                    built = False
                    break
        rec["built"] = built
        if built and not rec["caught"]:
            rc, out = run("cargo test --workspace --no-fail-fast --offline -q 2>&1 | grep -E 'test result|FAILED|error' | head -40", timeout=600, cwd=REPO)
            failed = ("FAILED" in out) or ("error" in out) or rc == 124
            rec["existing_tests_reject"] = failed
        log.write(json.dumps(rec) + "\n")
        log.flush()
        done += 1
        tag = "CAUGHT " + str(rec["caught"]) if rec["caught"] else ("nobuild" if not built else ("survivor(tests reject)" if rec.get("existing_tests_reject") else "SURVIVOR"))
        print(f"[{done}/{min(len(mutants), limit)}] L{i+1} {desc}: {tag} :: {nl.strip()[:90]}", flush=True)
finally:
    open(path, "w").write(orig)
    subprocess.run("git -C /repo status --short", shell=True)
