#!/bin/bash
# tools/mutant_matrix.sh <dir> <ID>...: every patch in <dir> against the listed checks
D=$1; shift
for m in $D/*.patch; do timeout 900 /verif/tools/mutant.sh $m "$@" 2>&1 | grep "^=="; done
