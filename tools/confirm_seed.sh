#!/bin/bash
# tools/confirm_seed.sh <ID> <worktree> <outdir> <demo-dest-dir-relative> <demo file> -- <demo command...>
# Confirms in the scratch worktree: (1) with the change, the existing suite passes (demo moved away);
# (2) the demonstration fails with the change; (3) passes without it. Prints a one-line verdict.
ID=$1; WT=$2; OUT=$3; DEST=$4; DEMO=$5; shift 6
cd "$WT" || exit 2
git checkout -q -- . ; git clean -fdq -e target
git apply "$OUT/patch.diff" || { echo "$ID: patch does not apply"; exit 2; }
suite=$(cargo test --workspace --no-fail-fast --offline 2>&1 | grep -E "^test result" | awk '{p+=$4; f+=$6} END {print p" passed "f" failed"}')
cp "$OUT/$DEMO" "$DEST/$DEMO"
timeout 900 "$@" >/tmp/seed/confirm_$ID.with.log 2>&1; with=$?
git apply -R "$OUT/patch.diff"
timeout 900 "$@" >/tmp/seed/confirm_$ID.without.log 2>&1; without=$?
git apply "$OUT/patch.diff"
echo "$ID: suite-with-change: $suite | demo with change rc=$with | demo without change rc=$without"
