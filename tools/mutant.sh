#!/bin/bash
# tools/mutant.sh <patch> <ID>... : apply a patch to /repo, run the quick checks, always revert.
set -u
PATCH="$(realpath "$1")"; shift
cd /repo || exit 2
if [ -n "$(git status --porcelain)" ]; then echo "/repo not clean"; exit 2; fi
trap 'git -C /repo checkout -- . ; git -C /repo clean -fdq -e target; /verif/check build >/dev/null 2>&1' EXIT
git apply "$PATCH" || { echo "patch does not apply"; exit 2; }
for id in "$@"; do
  out=$(VERIF_SEED=${VERIF_SEED:-0} /verif/check "$id" quick 2>&1); rc=$?
  echo "== $(basename $PATCH) $id rc=$rc: $(echo "$out" | grep -E 'violation key|harness build failed|^error' | head -2 | tr '\n' ' ')"
done
