#!/bin/bash
# tools/coverage.sh [IDs...]: which lines of /repo do the quick tiers execute? Builds an
# instrumented scratch copy of the harness (nightly, no adapter family), runs the listed checks
# (default: all) with VERIF_OUT_DIR redirected, and writes per-file line coverage of the library
# to /verif/notes/coverage.txt plus the never-executed lines to /verif/notes/uncovered.txt.
W=/tmp/cov; rm -rf $W; mkdir -p $W/prof $W/out
rsync -a --exclude fuzz /verif/harness/ $W/harness/
sed -i "s#/verif/target#$W/target#" $W/harness/.cargo/config.toml
sed -i 's#rustflags = \["--cfg", "sighook_verif"#rustflags = ["-C", "instrument-coverage", "--cfg", "sigverif_cov", "--check-cfg", "cfg(sigverif_cov)", "--cfg", "sighook_verif"#' $W/harness/.cargo/config.toml
cd $W/harness
export CARGO_NET_OFFLINE=true VERIF_OUT_DIR=$W/out LLVM_PROFILE_FILE="$W/prof/p-%8m.profraw"
cargo +nightly build --release --offline --no-default-features >$W/build.log 2>&1 || { tail -20 $W/build.log; exit 2; }
IDS="$@"; [ -z "$IDS" ] && IDS="C01 C02 C03 C04 C05 C06 C07 C08 C09 C10 C11 C12 C13 C14 C15 C16 C17 C18"
for id in $IDS; do $W/target/release/sigverif check $id quick 2>&1 | tail -1; done
BIN=$(dirname $(rustup +nightly which rustc))/../lib/rustlib/x86_64-unknown-linux-gnu/bin
$BIN/llvm-profdata merge -sparse $W/prof/*.profraw -o $W/all.profdata || exit 2
mkdir -p /verif/notes
$BIN/llvm-cov report $W/target/release/sigverif -instr-profile=$W/all.profdata $(find /repo/src /repo/signal-hook-registry/src -name '*.rs') 2>/dev/null | grep -E "^/repo|^TOTAL|^Filename" | awk '{print $1, $(NF-5), $(NF-4), $(NF-3)}' > /verif/notes/coverage.txt
$BIN/llvm-cov show $W/target/release/sigverif -instr-profile=$W/all.profdata $(find /repo/src /repo/signal-hook-registry/src -name '*.rs') -show-line-counts-or-regions=false 2>/dev/null | python3 -c "
import sys,re
cur=None
for l in sys.stdin:
    l=l.rstrip('\n')
    m=re.match(r'^(/repo/\S+):$',l)
    if m: cur=m.group(1); continue
    m=re.match(r'^\s*(\d+)\|\s*0\|(.*)$',l)
    if m and cur and m.group(2).strip() not in ('','}','{'): print('%s:%s: %s'%(cur,m.group(1),m.group(2)))
" > /verif/notes/uncovered.txt
cat /verif/notes/coverage.txt
cd /; rm -rf $W
