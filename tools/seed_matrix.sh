#!/bin/bash
# tools/seed_matrix.sh : every stored seeded change against the check of its own property (quick tier)
for d in /verif/seeded/*/; do
  n=$(basename $d); id=${n%%-*}
  out=$(timeout 1500 /verif/tools/mutant.sh $d/patch.diff $id 2>&1 | grep "^==" | sed "s/patch.diff/$n/" | cut -c1-170)
  echo "$out"
done
