#!/bin/bash
# tools/own_matrix.sh : every own mutant against its group's checks; prints one line per mutant: which checks caught it
run() { m=$1; shift; res=""; for id in "$@"; do out=$(timeout 1500 /verif/tools/mutant.sh $m $id 2>&1 | grep "^=="); if echo "$out" | grep -q "rc=1"; then res="$res $id"; elif echo "$out" | grep -q "rc=2"; then res="$res $id(rc2)"; fi; done; echo "$(basename $m .patch): caught by:${res:- NONE}"; }
for m in /verif/mutants/chan/*.patch; do run $m C06 C07 C08; done
for m in /verif/mutants/reg/*.patch; do run $m C01 C02 C03 C04 C18; done
for m in /verif/mutants/iter/*.patch; do run $m C09 C10 C11; done
for m in /verif/mutants/fp/*.patch; do b=$(basename $m .patch); id=$(echo $b | cut -c1-3 | tr c C); run $m $id; done
