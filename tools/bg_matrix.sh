#!/bin/bash
# tools/bg_matrix.sh <scratch-dir> <list-file>: sensitivity sweep on a scratch copy of /repo and of
# the harness (never touches /repo, /verif/evidence or /verif/replays). Each line of the list is
# "<patch> <ID> [<ID>...]". Prints one "== <name> <ID> rc=<n>: <key>" line per pair; removes the
# scratch directory at the end.
W=$1; LIST=$2
rm -rf $W; mkdir -p $W/out
rsync -a --exclude target --exclude .git /repo/ $W/repo/
( cd $W/repo && git init -q && git add -A >/dev/null 2>&1 && git -c user.email=x -c user.name=x commit -qm base )
rsync -a --exclude fuzz /verif/harness/ $W/harness/
sed -i "s#/repo#$W/repo#g" $W/harness/Cargo.toml
sed -i "s#/verif/target#$W/target#" $W/harness/.cargo/config.toml
export CARGO_NET_OFFLINE=true VERIF_OUT_DIR=$W/out
cd $W/harness
while read -r PATCH IDS; do
  [ -z "$PATCH" ] && continue
  name=$(basename $(dirname $PATCH))/$(basename $PATCH)
  if ! git -C $W/repo apply $PATCH 2>/dev/null; then echo "== $name: patch does not apply"; continue; fi
  if grep -q "extract.c\|build.rs" $PATCH; then cargo clean --release --offline -p signal-hook >/dev/null 2>&1; fi
  if ! cargo build --release --offline >$W/build.log 2>&1; then echo "== $name: build failed: $(grep -m1 '^error' $W/build.log)"; else
    for id in $IDS; do
      out=$(VERIF_SEED=${VERIF_SEED:-0} $W/target/release/sigverif check $id ${TIER:-quick} 2>&1); rc=$?
      echo "== $name $id rc=$rc: $(echo "$out" | grep -m1 'violation key' | cut -c1-150)"
    done
  fi
  git -C $W/repo checkout -q -- . ; git -C $W/repo clean -fdq
  if grep -q "extract.c\|build.rs" $PATCH; then cargo clean --release --offline -p signal-hook >/dev/null 2>&1; fi
done < $LIST
cd /; rm -rf $W
echo "matrix done"
