#!/usr/bin/env python3
"""tools/store_seed.py <ID> <outdir> <needs> <ran> <caught_by> : copy a confirmed seeded change into /verif/seeded/<ID>/"""
import sys, os, shutil, json, glob
sid, out, needs, ran, caught = sys.argv[1:6]
name = sys.argv[6] if len(sys.argv) > 6 else sid
d = f"/verif/seeded/{name}"
os.makedirs(d, exist_ok=True)
for f in glob.glob(out + "/*"):
    b = os.path.basename(f)
    if b in ("prompt.txt", "property.txt") or b.endswith(".log") or os.path.isdir(f):
        continue
    shutil.copy(f, d)
meta = {
    "property": sid,
    "breaks": open(out + "/meta.md").read()[:1500],
    "needs_to_manifest": needs,
    "confirmed": ran,
    "caught_by_checks": caught.split(","),
    "origin": "independent sub-agent given only the property text and a scratch worktree",
}
json.dump(meta, open(d + "/meta.json", "w"), indent=1)
print("stored", d)
