#!/bin/bash
# tools/seed_setup.sh <round> <ID>... : create /tmp/seed/<ID>r<round> worktrees + prompts for sub-agents
R=$1; shift
mkdir -p /tmp/seed/out
for id in "$@"; do
  W=/tmp/seed/${id}r$R; O=/tmp/seed/out/${id}r$R
  git -C /repo worktree add -q --detach $W HEAD && mkdir -p $O
  python3 - "$id" "$W" "$O" "$R" <<'PY'
import json,sys
pid,W,O,R=sys.argv[1:5]
for l in open('/verif/properties.jsonl'):
    p=json.loads(l)
    if p['id']==pid:
        prop="%s — %s\n\nStatement: %s\n\nQuantified over: %s\n\nMainly implemented in: %s\n" % (p['id'],p['title'],p['statement'],p['quantifier']['text'],', '.join(p['anchors']['files']))
        t=open('/verif/tools/seed_prompt.txt').read().replace('WORKTREE',W).replace('OUTDIR',O).replace('PROPERTY',prop)
        if int(R)>=2:
            t+="\nAdditional guidance for this round: other developers have already tried the most classic ideas (an RAII guard dropped too early by `let _ =`, deleting or weakening a barrier/ordering, swapping two adjacent statements, skipping a check on a re-used entry, capturing a raw descriptor instead of an owner). Find a DIFFERENT mechanism: for instance an error/early-return path that forgets a step, state that is updated in the wrong order only on a rarely taken branch, an off-by-one or wrong-width arithmetic on a boundary value, a cached value that goes stale, an optimisation that is only valid single-threaded, or a change in one crate/file whose assumption is silently relied upon by another.\n"
        if int(R)>=3:
            t+="\nFurther guidance for round 3: strongly prefer a defect that needs TWO cooperating code sites (e.g. a helper function whose contract you change slightly - return value meaning, ownership, ordering, which thread/at which depth it runs - plus a caller that relied on the old contract), or one that only shows on an error/failure/cleanup path (a syscall failing, a panic being unwound, a constructor failing half-way, a descriptor or allocation being reused), or on a boundary configuration (maximum sizes, the highest/lowest valid signal numbers, zero-length sets, the same object registered twice). Single-line mutations of the core algorithm have all been tried already.\n"
        open(O+'/prompt.txt','w').write(t)
PY
done
git -C /repo worktree list | wc -l
