#!/bin/bash
# tools/seed_setup.sh <round> <ID>... : create /tmp/seed/<ID>r<round> worktrees + prompts for sub-agents
R=$1; shift
mkdir -p /tmp/seed/out
for id in "$@"; do
  W=/tmp/seed/${id}r$R; O=/tmp/seed/out/${id}r$R
  git -C /repo worktree add -q --detach $W HEAD && mkdir -p $O
  python3 - "$id" "$W" "$O" "$R" <<'PY'
import json,sys
pid,W,O,R=sys.argv[1:5]
for l in open('/verif/properties.jsonl'):
    p=json.loads(l)
    if p['id']==pid:
        prop="%s — %s\n\nStatement: %s\n\nQuantified over: %s\n\nMainly implemented in: %s\n" % (p['id'],p['title'],p['statement'],p['quantifier']['text'],', '.join(p['anchors']['files']))
        t=open('/verif/tools/seed_prompt.txt').read().replace('WORKTREE',W).replace('OUTDIR',O).replace('PROPERTY',prop)
        if int(R)>=2:
            t+="\nAdditional guidance for this round: other developers have already tried the most classic ideas (an RAII guard dropped too early by `let _ =`, deleting or weakening a barrier/ordering, swapping two adjacent statements, skipping a check on a re-used entry, capturing a raw descriptor instead of an owner). Find a DIFFERENT mechanism: for instance an error/early-return path that forgets a step, state that is updated in the wrong order only on a rarely taken branch, an off-by-one or wrong-width arithmetic on a boundary value, a cached value that goes stale, an optimisation that is only valid single-threaded, or a change in one crate/file whose assumption is silently relied upon by another.\n"
        if int(R)>=3:
            t+="\nFurther guidance for round 3: strongly prefer a defect that needs TWO cooperating code sites (e.g. a helper function whose contract you change slightly - return value meaning, ownership, ordering, which thread/at which depth it runs - plus a caller that relied on the old contract), or one that only shows on an error/failure/cleanup path (a syscall failing, a panic being unwound, a constructor failing half-way, a descriptor or allocation being reused), or on a boundary configuration (maximum sizes, the highest/lowest valid signal numbers, zero-length sets, the same object registered twice). Single-line mutations of the core algorithm have all been tried already.\n"
        if int(R)>=4:
            import json as _j
            tried=_j.load(open('/verif/tools/seed_tried.json')).get(pid,[])
            t+="\nFurther guidance for rounds 4 and later: the following ideas have ALREADY been used by other developers for this very property - do not repeat them or close variants of them:\n"+"".join("  - %s\n"%x for x in tried)+"Pick a clause of the property, an API entry point, a configuration (signal number range, exfiltrator type, descriptor kind, calling convention, thread role) or a code path (error, cleanup, retry, overflow, re-entrancy, clone/drop of handles) that NONE of the above touches. Read the whole property statement again and look for a promise that is implemented by code you have not seen mentioned above. A change confined to one crate of the workspace whose effect shows only through another crate is welcome, as is a change that is correct on x86-64 hardware with the usual schedule but wrong for a precisely timed signal arrival. Keep it realistic: something a maintainer could merge as a clean-up, a performance tweak, a portability fix or a small feature.\n"
        if int(R)>=5:
            t+="\nFurther guidance for round 5: every idea listed above was detected in the end. Look where nobody has looked yet. Good hunting grounds: (1) files other than the ones named under 'Mainly implemented in' that the property nevertheless depends on (the adapter crates signal-hook-mio / signal-hook-tokio / signal-hook-async-std, src/low_level/mod.rs, src/lib.rs, build.rs, Cargo features); (2) behaviour that differs only for particular signal numbers (real-time signals 34..64, SIGCHLD, SIGPIPE, SIGCONT/SIGTSTP), particular descriptor kinds, particular exfiltrators, particular sa_flags or masks; (3) the second and later uses of an object (second registration of the same thing, second instance over the same signals, re-use after close, re-use after an error), several instances/handles at once, or objects moved to and used from another thread; (4) resource accounting over many repetitions (something that is correct 5 times and wrong the 6th or the 65536th: counters wrapping, tables filling up, ids colliding); (5) memory-ordering or atomicity downgrades that are invisible on x86-64 hardware but wrong under the Rust/C11 memory model (say so clearly in meta.md and demonstrate with the best means you have). The demonstration may use `RUSTFLAGS=\"--cfg sighook_verif\"` and the hook table in signal_hook_registry::verif_shim if that helps to force an interleaving or a weak-memory outcome.\n"
        if int(R)>=6:
            t+="\nFurther guidance for round 6 and later: many changes have been made for this property already (listed above). Find something genuinely new, for example: a dependency between TWO DIFFERENT properties' code (a change in code serving another feature that silently breaks this property's promise); behaviour that depends on the ORDER or NUMBER of prior operations in a way a short random history rarely produces (exactly N registrations, the Nth re-use, wrap-around of a counter or generation, a table becoming full); platform facts (sigaction flag combinations, signal masks inherited by threads, alternate signal stacks, errno preservation across the handler, EINTR/EAGAIN handling, O_NONBLOCK shared between dup'ed descriptors, fork); integer conversions (c_int vs usize vs u8 indices) on rarely used ranges; Drop order / panic-safety subtleties (a guard dropped at the wrong moment only when unwinding); or API misuse that the documentation explicitly allows (re-registering the same Arc, the same pipe for two signals, registering from inside an action is forbidden - but unregistering another id from a normal thread while its action runs is fine). Prefer changes whose demonstration needs at least THREE ingredients at once.\n"
        open(O+'/prompt.txt','w').write(t)
PY
done
git -C /repo worktree list | wc -l
